#!/bin/sh
# Warm the Go build cache from files already on disk (offline): the harness test binary with
# and without the race detector, and pp.
set -e
cd "$(dirname "$0")"
export GOFLAGS=-mod=mod GOPROXY=off GOSUMDB=off GOTOOLCHAIN=local
mkdir -p .build/setup evidence replay
(cd harness && go test -c -vet=off -o ../.build/setup/props.test ./props)
(cd harness && go test -c -vet=off -race -o ../.build/setup/props.race.test ./props)
(cd /repo && GOFLAGS= go build -o /verif/.build/setup/pp ./cmd/pp)
rm -rf .build/setup
echo setup ok
