#!/bin/bash
# Re-evaluates every kept seeded change against the quick check of its own property (and of
# the properties named in meta.json "caught_by") and writes seeded/RESULTS.md.
cd "$(dirname "$0")/.."
out=${OUT:-seeded/RESULTS.md}
echo "# Seeded changes vs. quick checks ($(date -u +%Y-%m-%dT%H:%MZ), /repo $(git -C /repo rev-parse --short HEAD), /verif $(git rev-parse --short HEAD))" > $out.tmp
echo >> $out.tmp
echo "| change | property checked | verdict | seconds | first message |" >> $out.tmp
echo "|---|---|---|---|---|" >> $out.tmp
# SHARD=k/n: only every n-th change starting with the k-th (several workers side by side; the
# outputs are concatenated and sorted by tools/seedmerge.sh)
sk=${SHARD%%/*}; sn=${SHARD##*/}; i=0
for d in seeded/C*/; do
  i=$((i+1))
  if [ -n "$SHARD" ] && [ $((i % sn)) -ne $((sk % sn)) ]; then continue; fi
  name=$(basename $d)
  prop=${name:0:3}
  props=$(python3 -c "import json; m=json.load(open('$d/meta.json')); print(' '.join(m.get('caught_by',[m['property']])))")
  python3 tools/seedtest.py $d $props 2>/dev/null | tail -1 | python3 -c "
import json,sys
d=json.loads(sys.stdin.read())
for p,r in d['props'].items():
    print('| $name | %s | %s | %s | %s |' % (p, 'CAUGHT' if r['violation'] else 'MISSED (exit %s)' % r['exit'], r['wall_s'], r['first'][:140].replace('|','/').replace('\n',' ')))
if not d.get('repo_tests_unchanged', True): print('| $name | - | note: repository tests changed: %s | | |' % d.get('repo_test_failures'))
" >> $out.tmp
done
mv $out.tmp $out
grep -c CAUGHT $out; grep -c MISSED $out
