#!/usr/bin/env python3
"""Regenerates /verif/MANIFEST.json from /verif/checks.json (single source of truth)."""
import json, os
V = os.path.dirname(os.path.dirname(os.path.abspath(__file__)))
checks = json.load(open(os.path.join(V, "checks.json")))
props = [json.loads(l) for l in open(os.path.join(V, "properties.jsonl")) if l.strip()]
na_reasons = {}
p = os.path.join(V, "not_applicable.json")
if os.path.exists(p):
    na_reasons = json.load(open(p))
m = {
    "version": 1,
    "setup_cmd": "./setup.sh",
    "hooks": {
        "guard": "verif",
        "enable": "none needed: every check is black-box (exported API of stack and stack/webstack, and the pp binary built from /repo/cmd/pp); no instrumentation exists in /repo",
        "baseline_off_cmd": "cd /repo && go test -vet=off -count=1 -timeout 25m ./...",
        "source_commits": [],
        "add_only": True,
    },
    "engines": [{
        "name": "props", "path": "harness/props",
        "serves_properties": sorted(checks),
        "kind_free_text": "Go property-based tests (pgregory.net/rapid v1.3.0 generators + shrinking, small-scope exhaustive enumeration, native go fuzzing in the thorough tier) with explicit oracles: reference models, differential and metamorphic relations; driven by ./run",
    }],
    "checks": [],
    "not_applicable": [],
    "notes": "Driver: ./run <id> <quick|thorough>; replay: ./run <id> --replay <file>. Exit 0 held / 1 VIOLATION / 2 inconclusive (harness problem). Known findings: known_findings.json. Sensitivity: seeded/ and DESIGN.md section 8.",
}
for pr in props:
    pid = pr["id"]
    c = checks.get(pid)
    if c is None:
        m["not_applicable"].append({"property_id": pid, "reason": na_reasons.get(pid, "check not built yet (work in progress)")})
        continue
    m["checks"].append({
        "property_id": pid,
        "quick_cmd": "./run %s quick" % pid,
        "thorough_cmd": "./run %s thorough" % pid,
        "evidence_file": "/verif/evidence/%s.json" % pid,
        "replay_cmd_template": "./run %s --replay {path}" % pid,
        "engine": "props",
        "level_claimed": {
            "category": "exploration",
            "text": c.get("level_text", "Generated-input search against an explicit oracle; no counter-example within the explored set. " + c["rule"][:400]),
            "design_ref": "DESIGN.md section 3, " + pid,
        },
        "level_note": "; ".join(c.get("assumptions", [])),
        "technique": c.get("technique", "property-based testing (rapid) with a reference-model oracle"),
    })
json.dump(m, open(os.path.join(V, "MANIFEST.json"), "w"), indent=1)
print("claimed:", [c["property_id"] for c in m["checks"]])
