#!/bin/bash
# seedmerge.sh <out> <part...>: merges the outputs of sharded tools/seedall.sh runs.
out=$1; shift
head -4 $1 > $out
cat "$@" | grep '^| C' | sort -t'|' -k2,2 -s >> $out
grep -c CAUGHT $out; grep -c MISSED $out
