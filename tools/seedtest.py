#!/usr/bin/env python3
"""Evaluate one seeded change: tools/seedtest.py <dir with patch.diff and demo/> <property> [more properties...]

Creates a scratch worktree of /repo under /tmp, confirms that the change (1) applies and builds,
(2) leaves the repository's own tests as they are, (3) makes its demonstration fail while the
demonstration passes on the unchanged tree, then runs the quick check of each property named
against the changed tree (VERIF_REPO) and reports which ones raise a VIOLATION. The worktree
and its build output are removed at the end. Prints a JSON summary on the last line.
"""
import json, os, re, shutil, subprocess, sys, tempfile, time

ENV = dict(os.environ, GOPROXY="off", GOSUMDB="off", GOTOOLCHAIN="local")
ENV.pop("GOFLAGS", None)
BASELINE_FAIL = {"TestAugmentErr", "TestAugmentErr/9-no_I/O_access"}


def sh(cmd, cwd, timeout=1500, env=None):
    r = subprocess.run(cmd, cwd=cwd, env=env or ENV, stdout=subprocess.PIPE, stderr=subprocess.STDOUT, text=True, errors="replace", timeout=timeout)
    return r.returncode, r.stdout


def failing_tests(wt):
    rc, out = sh(["go", "test", "-vet=off", "-count=1", "./..."], wt)
    fails = set(re.findall(r"^\s*--- FAIL: (\S+)", out, re.M))
    build_fail = "[build failed]" in out or "cannot" in out and "FAIL" in out and not fails
    return fails, build_fail, out


def place_demo(demo_dir, wt):
    placed = []
    for root, _, files in os.walk(demo_dir):
        for f in files:
            src = os.path.join(root, f)
            if not f.endswith(".go"):
                continue
            txt = open(src, errors="replace").read()
            m = re.search(r"^package (\w+)", txt, re.M)
            pkg = m.group(1) if m else "main"
            rel = os.path.relpath(root, demo_dir)
            if rel != "." and (os.path.isdir(os.path.join(wt, rel)) or os.path.isdir(os.path.join(wt, rel.split(os.sep)[0]))):
                # (a demonstration may bring packages of its own below an existing directory)
                dst_dir = os.path.join(wt, rel)
            else:
                dst_dir = {"stack": "stack", "stack_test": "stack", "internal": "internal", "webstack": "stack/webstack", "webstack_test": "stack/webstack"}.get(pkg)
                if dst_dir is None and pkg == "main" and f.endswith("_test.go") and os.path.exists(os.path.join(wt, "main.go")):
                    dst_dir = "."  # a test of the module's root package
                if dst_dir is None:
                    dst_dir = os.path.join("zz_demo_main")
                dst_dir = os.path.join(wt, dst_dir)
            os.makedirs(dst_dir, exist_ok=True)
            dst = os.path.join(dst_dir, f if f.endswith("_test.go") or pkg == "main" else f)
            shutil.copy(src, dst)
            placed.append(dst)
    return placed


def run_demo(placed, wt):
    """returns True if the demonstration passes"""
    ok = True
    dirs = sorted({os.path.dirname(p) for p in placed})
    out_all = ""
    for d in dirs:
        rel = "./" + os.path.relpath(d, wt)
        if any(p.endswith("_test.go") for p in placed if os.path.dirname(p) == d):
            # a demonstration that says it needs the race detector gets it
            race = []
            for p in placed:
                if os.path.dirname(p) == d and "-race" in "".join(open(p, errors="replace").readlines()[:6]):
                    race = ["-race"]
            rc, out = sh(["go", "test"] + race + ["-vet=off", "-count=1", "-run", "Demo|ZZ|Zz|Seed", rel], wt)
            if "no tests to run" in out:
                rc, out = sh(["go", "test", "-vet=off", "-count=1", rel], wt)
                # only the demo's own failures matter
                fails = set(re.findall(r"^\s*--- FAIL: (\S+)", out, re.M)) - BASELINE_FAIL
                rc = 1 if fails or "[build failed]" in out else 0
        elif not any(re.search(r"^package main\b", open(p, errors="replace").read(), re.M) for p in placed if os.path.dirname(p) == d):
            continue  # a library package the demonstration's test imports
        else:
            rc, out = sh(["go", "run", rel], wt)
        out_all += out[-1500:]
        ok = ok and rc == 0
    return ok, out_all


def main():
    seeded = os.path.abspath(sys.argv[1])
    props = sys.argv[2:]
    res = {"seeded": seeded, "props": {}}
    wt = tempfile.mkdtemp(prefix="mut-", dir="/tmp")
    os.rmdir(wt)
    try:
        subprocess.check_call(["git", "-C", "/repo", "worktree", "add", "-q", "--detach", wt, "HEAD"])
        demo_dir = os.path.join(seeded, "demo")
        placed = place_demo(demo_dir, wt) if os.path.isdir(demo_dir) else []
        if placed:
            ok, out = run_demo(placed, wt)
            res["demo_passes_on_clean_tree"] = ok
            if not ok:
                res["demo_clean_output"] = out[-1200:]
        rc, out = sh(["git", "apply", os.path.join(seeded, "patch.diff")], wt)
        res["applies"] = rc == 0
        if rc != 0:
            res["apply_output"] = out[-800:]
            print(json.dumps(res))
            return 1
        if placed:
            ok, out = run_demo(placed, wt)
            res["demo_fails_with_change"] = not ok
            res["demo_output_with_change"] = out[-600:]
            for p in placed:
                os.remove(p)
            shutil.rmtree(os.path.join(wt, "zz_demo_main"), ignore_errors=True)
        rc, out = sh(["go", "build", "./..."], wt)
        res["builds"] = rc == 0
        fails, bf, out = failing_tests(wt)
        res["repo_tests_unchanged"] = (fails == BASELINE_FAIL) and not bf
        if not res["repo_tests_unchanged"]:
            res["repo_test_failures"] = sorted(fails)
        for p in props:
            env = dict(os.environ, VERIF_REPO=wt)
            t0 = time.time()
            rc, out = sh(["/verif/run", p, "quick"], "/verif", env=env, timeout=3000)
            viol = re.findall(r"^VIOLATION property=(\S+) replay=(\S+)", out, re.M)
            msg = ""
            m = re.search(r"property \S+ violated \(([^)]*)\): (.*)", out)
            if m:
                msg = (m.group(1) + ": " + m.group(2))[:400]
            res["props"][p] = {"exit": rc, "violation": bool(viol), "first": msg, "wall_s": round(time.time() - t0, 1)}
            # replay files of a mutant run are not findings on /repo: drop them
            for _, rp in viol:
                if "/replay/regress/" in rp or "/replay/known/" in rp:
                    continue  # committed inputs, not output of this run
                try:
                    os.remove(rp)
                except OSError:
                    pass
    finally:
        import hashlib
        h = hashlib.sha1(os.path.realpath(wt).encode()).hexdigest()[:10]
        for d in ("scratch-" + h, "harness-" + h):
            shutil.rmtree(os.path.join("/verif/.build", d), ignore_errors=True)
        subprocess.call(["git", "-C", "/repo", "worktree", "remove", "--force", wt])
        shutil.rmtree(wt, ignore_errors=True)
        subprocess.call(["git", "-C", "/repo", "worktree", "prune"])
    print(json.dumps(res))
    return 0


if __name__ == "__main__":
    sys.exit(main())
