#!/usr/bin/env python3
"""Take a sub-agent's deliverables into seeded/: tools/intake.py <round> <outdir> <prop> <needs-a> [<needs-b>]

Copies <outdir>/<prop>/{a,b} (patch.diff, demo/, NOTES.md) to seeded/<prop><letter>, using the
next free letters, runs tools/seedtest.py on each (fresh scratch worktree; the change is never
applied to /repo) and writes meta.json from what was confirmed. A change that does not confirm
(patch does not apply/build, repository tests change, demo does not discriminate) is not kept.
"""
import json, os, shutil, subprocess, sys

rnd, outdir, prop = sys.argv[1], sys.argv[2], sys.argv[3]
needs = sys.argv[4:]
root = os.path.dirname(os.path.dirname(os.path.abspath(__file__)))
letters = "abcdefghijklmnopqrstuvwxyz"
for idx, x in enumerate("ab"):
    src = os.path.join(outdir, prop, x)
    if not os.path.exists(os.path.join(src, "patch.diff")):
        print("no deliverable", src)
        continue
    letter = next(l for l in letters if not os.path.exists(os.path.join(root, "seeded", prop + l)))
    dst = os.path.join(root, "seeded", prop + letter)
    shutil.copytree(src, dst)
    r = subprocess.run([sys.executable, os.path.join(root, "tools", "seedtest.py"), dst, prop], stdout=subprocess.PIPE, stderr=subprocess.DEVNULL, text=True)
    try:
        res = json.loads(r.stdout.strip().splitlines()[-1])
    except Exception:
        print("seedtest gave no result for", dst, r.stdout[-400:])
        shutil.rmtree(dst)
        continue
    ok = res.get("applies") and res.get("builds") and res.get("repo_tests_unchanged") and res.get("demo_passes_on_clean_tree") and res.get("demo_fails_with_change")
    if not ok:
        print("NOT CONFIRMED", prop + letter, {k: v for k, v in res.items() if k not in ("props", "demo_output_with_change")})
        shutil.rmtree(dst)
        continue
    pr = res["props"].get(prop, {})
    meta = {
        "property": prop,
        "round": int(rnd),
        "origin": "written by a fresh sub-agent given only the property record, a scratch worktree of /repo and one line per earlier fault of that property - nothing from /verif; asked for new mechanisms (wrong value/order, option and input-feature combinations, second use)",
        "needs_to_manifest": needs[idx] if idx < len(needs) else "",
        "confirmed_by_me": {
            "command": "tools/seedtest.py seeded/%s%s %s" % (prop, letter, prop),
            "patch_applies_and_builds": True,
            "repo_tests_unchanged_with_patch": True,
            "demo_passes_on_unchanged_tree": True,
            "demo_fails_with_patch": True,
        },
        "caught_by_checks_as_they_stood_before_round%s" % rnd: bool(pr.get("violation")),
    }
    json.dump(meta, open(os.path.join(dst, "meta.json"), "w"), indent=1)
    print("%s%s: %s  (%ss)  %s" % (prop, letter, "CAUGHT" if pr.get("violation") else "MISSED exit=%s" % pr.get("exit"), pr.get("wall_s"), (pr.get("first") or "")[:300].replace("\n", " ")))
