package props

import (
	"bytes"
	"errors"
	"fmt"
	"io"
	"net"
	"net/http"
	"net/http/httptest"
	"net/url"
	"regexp"
	"runtime"
	"strconv"
	"strings"
	"sync"
	"sync/atomic"
	"testing"
	"time"

	"github.com/maruel/panicparse/v2/stack"
	"github.com/maruel/panicparse/v2/stack/webstack"
	"golang.org/x/net/html"
	"pgregory.net/rapid"
)

// C20 — a live process can always snapshot itself (library and web handler).

// ---- workload -----------------------------------------------------------------------------

type stableG struct {
	kind    string
	id      int
	parent  int
	states  []string // acceptable state texts (Go releases differ)
	fn      string   // function the goroutine is parked in
	creator string   // creating function ("" = (*workload).spawnStable)
	locked  bool
	elided  bool
	release func()
}

type workload struct {
	mu      sync.Mutex
	stable  []*stableG
	stop    chan struct{}
	wg      sync.WaitGroup
	held    sync.Mutex
	cond    *sync.Cond
	condMu  sync.Mutex
	ln      net.Listener
	churned atomic.Int64
	active  atomic.Bool
}

var reGoid = regexp.MustCompile(`^goroutine (\d+) `)

func goid() int {
	var b [64]byte
	n := runtime.Stack(b[:], false)
	m := reGoid.FindSubmatch(b[:n])
	id, _ := strconv.Atoi(string(m[1]))
	return id
}

//go:noinline
func parkRecv(ch chan int, ready chan<- int) { ready <- goid(); <-ch }

//go:noinline
func parkSend(ch chan int, ready chan<- int) { ready <- goid(); ch <- 1 }

//go:noinline
func parkSelect(a, b chan int, ready chan<- int) {
	ready <- goid()
	select {
	case <-a:
	case <-b:
	}
}

//go:noinline
func parkSleep(stop chan int, ready chan<- int) {
	ready <- goid()
	for {
		select {
		case <-stop:
			return
		default:
		}
		time.Sleep(time.Hour)
	}
}

//go:noinline
func parkMutex(mu *sync.Mutex, ready chan<- int) { ready <- goid(); mu.Lock(); mu.Unlock() }

//go:noinline
func parkCond(c *sync.Cond, done *bool, ready chan<- int) {
	c.L.Lock()
	ready <- goid()
	for !*done {
		c.Wait()
	}
	c.L.Unlock()
}

//go:noinline
func parkAccept(ln net.Listener, ready chan<- int) {
	ready <- goid()
	c, err := ln.Accept()
	if err == nil {
		c.Close()
	}
}

//go:noinline
func parkLocked(ch chan int, ready chan<- int) {
	runtime.LockOSThread()
	defer runtime.UnlockOSThread()
	ready <- goid()
	<-ch
}

//go:noinline
func parkDeep(n int, ch chan int, ready chan<- int) int {
	if n == 0 {
		ready <- goid()
		<-ch
		return 0
	}
	return parkDeep(n-1, ch, ready) + 1
}

//go:noinline
func parkNilChan(ready chan<- int) {
	ready <- goid()
	var c chan int
	<-c
}

type pairArg struct{ a, b int }

// parkGeneric is printed as parkGeneric[...] for every instantiation: goroutines parked at the
// same line show argument lists of different shapes.
//
//go:noinline
func parkGeneric[T any](v T, ch chan int, ready chan<- int) { ready <- goid(); <-ch; _ = v }

// spawnGeneric is the common creator (one go statement) of all parkGeneric goroutines.
//
//go:noinline
func spawnGeneric[T any](v T, ch chan int, ready chan<- int) { go parkGeneric(v, ch, ready) }

// spawnStable starts one registered goroutine; it is the "created by" function of all of them.
//
//go:noinline
func (w *workload) spawnStable(kind string) *stableG {
	ready := make(chan int, 1)
	s := &stableG{kind: kind, parent: goid()}
	ch := make(chan int)
	switch kind {
	case "recv":
		s.fn, s.states = "parkRecv", []string{"chan receive"}
		go parkRecv(ch, ready)
		s.release = func() { close(ch) }
	case "send":
		s.fn, s.states = "parkSend", []string{"chan send"}
		go parkSend(ch, ready)
		s.release = func() { <-ch }
	case "select":
		s.fn, s.states = "parkSelect", []string{"select"}
		go parkSelect(ch, make(chan int), ready)
		s.release = func() { close(ch) }
	case "sleep":
		s.fn, s.states = "parkSleep", []string{"sleep"}
		go parkSleep(ch, ready)
		s.release = func() {} // left sleeping; the process ends with the test binary
	case "mutex":
		s.fn, s.states = "parkMutex", []string{"sync.Mutex.Lock", "semacquire"}
		go parkMutex(&w.held, ready)
		s.release = func() {}
	case "cond":
		s.fn, s.states = "parkCond", []string{"sync.Cond.Wait"}
		done := false
		go parkCond(w.cond, &done, ready)
		s.release = func() { w.condMu.Lock(); done = true; w.condMu.Unlock(); w.cond.Broadcast() }
	case "accept":
		s.fn, s.states = "parkAccept", []string{"IO wait", "syscall"}
		ln, err := net.Listen("tcp", "127.0.0.1:0")
		if err != nil {
			panic("HARNESS: " + err.Error())
		}
		go parkAccept(ln, ready)
		s.release = func() { ln.Close() }
	case "locked":
		s.fn, s.states, s.locked = "parkLocked", []string{"chan receive"}, true
		go parkLocked(ch, ready)
		s.release = func() { close(ch) }
	case "deep":
		s.fn, s.states, s.elided = "parkDeep", []string{"chan receive"}, true
		go parkDeep(120, ch, ready)
		s.release = func() { close(ch) }
	case "generic1":
		s.fn, s.states = "parkGeneric[...]", []string{"chan receive"}
		s.creator = "spawnGeneric[...]"
		spawnGeneric(pairArg{1, 2}, ch, ready)
		s.release = func() { close(ch) }
	case "generic2":
		s.fn, s.states = "parkGeneric[...]", []string{"chan receive"}
		s.creator = "spawnGeneric[...]"
		spawnGeneric(7, ch, ready)
		s.release = func() { close(ch) }
	case "nilchan":
		s.fn, s.states = "parkNilChan", []string{"chan receive (nil chan)"}
		go parkNilChan(ready)
		s.release = func() {}
	}
	s.id = <-ready
	return s
}

var stableKinds = []string{"recv", "send", "select", "sleep", "mutex", "cond", "accept", "locked", "deep", "nilchan", "generic1", "generic2"}

func newWorkload(perKind int) *workload {
	w := &workload{stop: make(chan struct{})}
	w.cond = sync.NewCond(&w.condMu)
	w.held.Lock()
	for i := 0; i < perKind; i++ {
		for _, k := range stableKinds {
			w.stable = append(w.stable, w.spawnStable(k))
		}
	}
	// let them reach their parking spot
	time.Sleep(50 * time.Millisecond)
	return w
}

// churn creates and destroys goroutines at the given rate until stopped.
func (w *workload) churn(spawners, burst int) {
	w.active.Store(true)
	for s := 0; s < spawners; s++ {
		w.wg.Add(1)
		go func(s int) {
			defer w.wg.Done()
			var mu sync.Mutex
			for i := 0; ; i++ {
				select {
				case <-w.stop:
					return
				default:
				}
				var wg sync.WaitGroup
				ch := make(chan int)
				for b := 0; b < burst; b++ {
					wg.Add(1)
					go func(b int) {
						defer wg.Done()
						w.churned.Add(1)
						switch (b + i) % 5 {
						case 0:
							<-ch
						case 1:
							time.Sleep(time.Duration(b%3) * time.Millisecond)
						case 2:
							mu.Lock()
							runtime.Gosched()
							mu.Unlock()
						case 3:
							select {
							case <-ch:
							case <-time.After(2 * time.Millisecond):
							}
						case 4:
							_ = parkDeepShort(30)
						}
					}(b)
				}
				time.Sleep(time.Millisecond)
				close(ch)
				wg.Wait()
			}
		}(s)
	}
}

//go:noinline
func parkDeepShort(n int) int {
	if n == 0 {
		runtime.Gosched()
		return 0
	}
	return parkDeepShort(n-1) + 1
}

func (w *workload) shutdown() {
	w.active.Store(false)
	close(w.stop)
	w.wg.Wait()
	for _, s := range w.stable {
		s.release()
	}
	w.held.Unlock()
}

// ---- library: the runtime's own dump ---------------------------------------------------------

var reHeaderLine = regexp.MustCompile(`(?m)^goroutine \d+ (gp=\S+ m=\S+( mp=\S+)? )?\[`)

func c20Library(w *workload) (states map[string]bool, n int, err error) {
	buf := make([]byte, 16<<20)
	k := runtime.Stack(buf, true)
	if k >= len(buf) {
		return nil, 0, fmt.Errorf("HARNESS: dump larger than 16 MiB")
	}
	buf = buf[:k]
	headers := len(reHeaderLine.FindAllIndex(buf, -1))
	snap, rem, e := stack.ScanSnapshot(bytes.NewReader(buf), io.Discard, &stack.Opts{NameArguments: true})
	if e != nil && e != io.EOF {
		return nil, 0, fmt.Errorf("the runtime's own dump does not parse: %v\nremainder: %q", e, quoteShort(rem))
	}
	if snap == nil {
		return nil, 0, fmt.Errorf("no snapshot in the runtime's own dump")
	}
	if len(rem) != 0 {
		return nil, 0, fmt.Errorf("the runtime's own dump was not consumed entirely; remainder %q", quoteShort(rem))
	}
	if len(snap.Goroutines) != headers {
		return nil, 0, fmt.Errorf("the dump has %d goroutine headers, the snapshot %d goroutines", headers, len(snap.Goroutines))
	}
	byID := map[int]*stack.Goroutine{}
	states = map[string]bool{}
	for _, g := range snap.Goroutines {
		if byID[g.ID] != nil {
			return nil, 0, fmt.Errorf("goroutine %d appears twice", g.ID)
		}
		byID[g.ID] = g
		states[g.State] = true
	}
	for _, s := range w.stable {
		g := byID[s.id]
		if g == nil {
			return nil, 0, fmt.Errorf("registered goroutine %d (%s) is missing from the snapshot", s.id, s.kind)
		}
		okState := false
		for _, st := range s.states {
			if g.State == st {
				okState = true
			}
		}
		// Between announcing itself and actually parking (or while being woken by the
		// scheduler) a goroutine is truthfully "runnable"/"running": nothing to judge then.
		if g.State == "runnable" || g.State == "running" {
			okState = true
		}
		if !okState {
			return nil, 0, fmt.Errorf("goroutine %d is parked in %s but shows state %q (want one of %q)", s.id, s.fn, g.State, s.states)
		}
		if g.Locked != s.locked {
			return nil, 0, fmt.Errorf("goroutine %d (%s): locked=%v", s.id, s.kind, g.Locked)
		}
		found := false
		for i := range g.Stack.Calls {
			c := &g.Stack.Calls[i]
			if c.Func.Name == s.fn {
				found = true
				if c.SrcName != "c20_test.go" || c.Line <= 0 || !strings.HasSuffix(c.Func.ImportPath, "harness/props") {
					return nil, 0, fmt.Errorf("goroutine %d: frame %s has file %q line %d import path %q", s.id, s.fn, c.RemoteSrcPath, c.Line, c.Func.ImportPath)
				}
			}
		}
		if !found {
			return nil, 0, fmt.Errorf("goroutine %d: no frame for %s among %d frames", s.id, s.fn, len(g.Stack.Calls))
		}
		if s.elided != g.Stack.Elided {
			return nil, 0, fmt.Errorf("goroutine %d (%s): elided=%v with %d frames", s.id, s.kind, g.Stack.Elided, len(g.Stack.Calls))
		}
		wantCreator := "(*workload).spawnStable"
		if s.creator != "" {
			wantCreator = s.creator
		}
		if len(g.CreatedBy.Calls) != 1 || g.CreatedBy.Calls[0].Func.Name != wantCreator {
			return nil, 0, fmt.Errorf("goroutine %d: creator %+v, want %s", s.id, g.CreatedBy.Calls, wantCreator)
		}
		if want := fmt.Sprintf(" in goroutine %d", s.parent); !strings.HasSuffix(g.CreatedBy.Calls[0].Func.Complete, want) {
			return nil, 0, fmt.Errorf("goroutine %d: creator reference %q lacks %q", s.id, g.CreatedBy.Calls[0].Func.Complete, want)
		}
	}
	return states, len(snap.Goroutines), nil
}

// ---- handler ---------------------------------------------------------------------------------

type c20Req struct {
	Method     string
	Similarity *string
	Augment    *string
	Maxmem     *string
}

func (r *c20Req) query() string {
	v := url.Values{}
	if r.Similarity != nil {
		v.Set("similarity", *r.Similarity)
	}
	if r.Augment != nil {
		v.Set("augment", *r.Augment)
	}
	if r.Maxmem != nil {
		v.Set("maxmem", *r.Maxmem)
	}
	return v.Encode()
}

// expect: 200, 400, 405, or 0 when the statement leaves it open.
func (r *c20Req) expect() int {
	if r.Method != "GET" {
		return 405
	}
	if r.Maxmem != nil && *r.Maxmem != "" {
		n, err := strconv.Atoi(*r.Maxmem)
		if err != nil {
			return 400
		}
		if n < 0 {
			return 0 // a negative budget: clamped or rejected, both are defensible
		}
	}
	if r.Augment != nil && *r.Augment != "" {
		if *r.Augment != "0" && *r.Augment != "1" {
			if n, err := strconv.Atoi(*r.Augment); err != nil || n < 0 || n > 1 {
				return 400
			}
		}
	}
	if r.Similarity != nil {
		switch *r.Similarity {
		case "", "exactflags", "exactlines", "anypointer", "anyvalue":
		default:
			return 400
		}
	}
	return 200
}

var reRoutines = regexp.MustCompile(`Signature #\d+: (\d+) routine`)

func c20CheckResponse(r *c20Req, code int, ctype string, body []byte, minG, maxG int) error {
	want := r.expect()
	if code >= 500 {
		return fmt.Errorf("%s ?%s answered %d: %q", r.Method, r.query(), code, quoteShort(body))
	}
	if want != 0 && code != want {
		return fmt.Errorf("%s ?%s answered %d, want %d", r.Method, r.query(), code, want)
	}
	if code != 200 {
		return nil
	}
	if !strings.HasPrefix(ctype, "text/html") {
		return fmt.Errorf("content type %q", ctype)
	}
	if !bytes.HasSuffix(bytes.TrimSpace(body), []byte(`<div class="bottom-padding"></div>`)) {
		return fmt.Errorf("page is incomplete: ends with %q", quoteShort(body[max(0, len(body)-120):]))
	}
	z := html.NewTokenizer(bytes.NewReader(body))
	for {
		if tt := z.Next(); tt == html.ErrorToken {
			if z.Err() != io.EOF {
				return fmt.Errorf("page does not tokenise: %v", z.Err())
			}
			break
		}
	}
	total := 0
	for _, m := range reRoutines.FindAllSubmatch(body, -1) {
		k, _ := strconv.Atoi(string(m[1]))
		total += k
	}
	if total < minG || total > maxG {
		return fmt.Errorf("page accounts for %d goroutines; %d registered goroutines exist and at most %d goroutines existed around the request", total, minG, maxG)
	}
	return nil
}

type c20Case struct {
	Reqs    []c20Req
	Clients int
	Churn   int // spawner loops
	Burst   int
}

func sp(s string) *string { return &s }

func genReq(t *rapid.T) c20Req {
	r := c20Req{Method: rapid.SampledFrom([]string{"GET", "GET", "GET", "GET", "GET", "GET", "POST", "PUT", "HEAD"}).Draw(t, "method")}
	opt := func(label string, vals []string) *string {
		i := rapid.IntRange(-1, len(vals)-1).Draw(t, label)
		if i < 0 {
			return nil
		}
		return sp(vals[i])
	}
	r.Similarity = opt("similarity", []string{"exactflags", "exactlines", "anypointer", "anyvalue", "alike", "ANYVALUE", "", "any value"})
	r.Augment = opt("augment", []string{"0", "1", "2", "-1", "x", "", "true", "01", "f"})
	r.Maxmem = opt("maxmem", []string{"1", "1048576", "2097152", "67108864", "-5", "x", "", "1e6"})
	return r
}

// closeServer shuts a test server down without waiting for requests the handler never
// answers (httptest's Close blocks until every outstanding request is done).
func closeServer(srv *httptest.Server) {
	done := make(chan struct{})
	go func() {
		srv.CloseClientConnections()
		srv.Close()
		close(done)
	}()
	select {
	case <-done:
	case <-time.After(5 * time.Second):
	}
}

// timeoutIsHarness: the client's time limit is there to keep a wedged run from hanging; on a
// machine that is merely too busy it says nothing about the handler.
func timeoutIsHarness(err error) string {
	var ne net.Error
	if errors.As(err, &ne) && ne.Timeout() {
		return "HARNESS: time limit hit (inconclusive): "
	}
	return ""
}

func c20Oracle(c c20Case) error {
	w := newWorkload(3)
	defer w.shutdown()
	w.churn(c.Churn, c.Burst)
	srv := httptest.NewServer(http.HandlerFunc(webstack.SnapshotHandler))
	defer closeServer(srv)
	st := statsFor("C20")
	// library snapshots interleaved with the requests
	states, _, err := c20Library(w)
	if err != nil {
		return err
	}
	var maxSeen atomic.Int64
	stopSampler := make(chan struct{})
	var swg sync.WaitGroup
	swg.Add(1)
	go func() {
		defer swg.Done()
		for {
			select {
			case <-stopSampler:
				return
			default:
			}
			if n := int64(runtime.NumGoroutine()); n > maxSeen.Load() {
				maxSeen.Store(n)
			}
			time.Sleep(200 * time.Microsecond)
		}
	}()
	errs := make(chan error, c.Clients)
	var cwg sync.WaitGroup
	next := atomic.Int64{}
	client := &http.Client{Timeout: 60 * time.Second}
	for cl := 0; cl < c.Clients; cl++ {
		cwg.Add(1)
		go func() {
			defer cwg.Done()
			for {
				i := int(next.Add(1)) - 1
				if i >= len(c.Reqs) {
					return
				}
				r := &c.Reqs[i]
				req, _ := http.NewRequest(r.Method, srv.URL+"/debug?"+r.query(), nil)
				resp, err := client.Do(req)
				if err != nil {
					errs <- fmt.Errorf("%srequest %d: %v", timeoutIsHarness(err), i, err)
					return
				}
				body, rerr := io.ReadAll(resp.Body)
				resp.Body.Close()
				if rerr != nil {
					errs <- fmt.Errorf("%srequest %d: reading the response: %v", timeoutIsHarness(rerr), i, rerr)
					return
				}
				// every goroutine that existed around the request, plus the server's own
				// Upper bound: the largest count sampled, plus every goroutine the churn can have
				// alive at one instant (the sampler may miss a burst), plus the server's own.
				upper := int(maxSeen.Load()) + c.Churn*(c.Burst+2) + 2*c.Clients + 64
				if err := c20CheckResponse(r, resp.StatusCode, resp.Header.Get("Content-Type"), body, len(w.stable), upper); err != nil {
					errs <- err
					return
				}
				nt := len(states) >= 5 && runtime.NumGoroutine() >= 50 && w.active.Load()
				if nt {
					st.count(1, 1)
				} else {
					st.count(1, 0)
				}
				st.class(fmt.Sprintf("status_%d", resp.StatusCode), 1)
			}
		}()
	}
	cwg.Wait()
	close(stopSampler)
	swg.Wait()
	select {
	case e := <-errs:
		return e
	default:
	}
	// a final library snapshot while the churn is still running
	states2, n2, err := c20Library(w)
	if err != nil {
		return err
	}
	st.count(2, 2)
	st.class("library_snapshots", 2)
	st.class("distinct_states_seen", int64(len(states2)))
	st.class("goroutines_in_last_snapshot", int64(n2))
	return nil
}

var c20 = Check[c20Case]{
	Prop: "C20", Name: "live",
	Gen: func(t *rapid.T) c20Case {
		c := c20Case{Clients: rapid.IntRange(1, 16).Draw(t, "clients"), Churn: rapid.IntRange(1, 6).Draw(t, "churn"), Burst: rapid.IntRange(4, 40).Draw(t, "burst")}
		for i, k := 0, rapid.IntRange(4, 24).Draw(t, "nreqs"); i < k; i++ {
			c.Reqs = append(c.Reqs, genReq(t))
		}
		return c
	},
	Oracle: c20Oracle,
	Obs: func(c c20Case) Obs {
		return Obs{Nontrivial: false, Classes: []string{"sessions"}, Sample: c}
	},
}

// c20Big: a dump larger than the handler's initial 1 MiB buffer and maxmem values that are
// sufficient but not 1 MiB times a power of two: the page must still account for everything.
func c20Big(extra int) error {
	w := newWorkload(1)
	defer w.shutdown()
	ch := make(chan int)
	defer close(ch)
	ready := make(chan int, extra)
	for i := 0; i < extra; i++ {
		go parkRecv(ch, ready)
	}
	for i := 0; i < extra; i++ {
		<-ready
	}
	buf := make([]byte, 64<<20)
	size := runtime.Stack(buf, true)
	buf = nil
	if size < 1<<20 {
		return fmt.Errorf("HARNESS: dump of %d goroutines is only %d bytes", extra, size)
	}
	srv := httptest.NewServer(http.HandlerFunc(webstack.SnapshotHandler))
	defer closeServer(srv)
	client := &http.Client{Timeout: 120 * time.Second}
	for _, maxmem := range []int{size + 300001, size*3/2 + 7, 2*size + 1, 64 << 20} {
		resp, err := client.Get(fmt.Sprintf("%s/debug?augment=0&maxmem=%d", srv.URL, maxmem))
		if err != nil {
			return fmt.Errorf("%smaxmem=%d: %v", timeoutIsHarness(err), maxmem, err)
		}
		body, rerr := io.ReadAll(resp.Body)
		resp.Body.Close()
		if rerr != nil {
			return fmt.Errorf("%smaxmem=%d: reading the response: %v", timeoutIsHarness(rerr), maxmem, rerr)
		}
		if resp.StatusCode != 200 {
			return fmt.Errorf("the dump is %d bytes and maxmem=%d is sufficient, yet the handler answered %d: %q", size, maxmem, resp.StatusCode, quoteShort(body))
		}
		total := 0
		for _, m := range reRoutines.FindAllSubmatch(body, -1) {
			k, _ := strconv.Atoi(string(m[1]))
			total += k
		}
		if total < extra+len(w.stable) {
			return fmt.Errorf("the dump is %d bytes, maxmem=%d: the page accounts for %d goroutines, at least %d exist", size, maxmem, total, extra+len(w.stable))
		}
		statsFor("C20").count(1, 1)
	}
	// An insufficient budget: the handler parses a dump truncated at an arbitrary byte (C10's
	// subject, reached through the handler): it may refuse (500) or serve what it could parse,
	// but it must answer, and a 200 must be a complete page that invents no goroutine.
	for _, maxmem := range []int{1, 1 << 20, size - 1000} {
		resp, err := client.Get(fmt.Sprintf("%s/debug?augment=0&maxmem=%d", srv.URL, maxmem))
		if err != nil {
			return fmt.Errorf("%smaxmem=%d (dump %d bytes): %v", timeoutIsHarness(err), maxmem, size, err)
		}
		body, rerr := io.ReadAll(resp.Body)
		resp.Body.Close()
		if rerr != nil {
			return fmt.Errorf("%smaxmem=%d: reading the response: %v", timeoutIsHarness(rerr), maxmem, rerr)
		}
		switch resp.StatusCode {
		case 500:
		case 200:
			if !bytes.HasSuffix(bytes.TrimSpace(body), []byte(`<div class="bottom-padding"></div>`)) {
				return fmt.Errorf("maxmem=%d: truncated dump served as an incomplete page", maxmem)
			}
			total := 0
			for _, m := range reRoutines.FindAllSubmatch(body, -1) {
				k, _ := strconv.Atoi(string(m[1]))
				total += k
			}
			if total > runtime.NumGoroutine()+64 {
				return fmt.Errorf("maxmem=%d: page accounts for %d goroutines, only about %d exist", maxmem, total, runtime.NumGoroutine())
			}
			// the dump was cut after at least 1 MiB (the documented minimum budget): the
			// goroutines printed before the cut are on the page - at least half of that share
			if least := extra * (1 << 20) / size / 2; total < least {
				return fmt.Errorf("maxmem=%d: the %d byte dump was cut after at least 1 MiB, yet the page accounts for only %d goroutines (at least %d lay before the cut)", maxmem, size, total, least)
			}
		default:
			return fmt.Errorf("maxmem=%d (dump %d bytes): status %d", maxmem, size, resp.StatusCode)
		}
		statsFor("C20").count(1, 1)
	}
	statsFor("C20").class("large_dump_requests", 7)
	return nil
}

// c20Grid: every combination of parameter classes once, sequentially, against a small
// workload: absent / valid / invalid values of maxmem, augment and similarity (the random
// sessions draw each parameter independently and need luck to hit a particular pair).
func c20Grid() error {
	w := newWorkload(1)
	defer w.shutdown()
	srv := httptest.NewServer(http.HandlerFunc(webstack.SnapshotHandler))
	defer closeServer(srv)
	client := &http.Client{Timeout: 60 * time.Second}
	opt := func(v string) *string {
		if v == "-" {
			return nil
		}
		return sp(v)
	}
	// The documented way to change a default: a wrapper that overrides the form values and
	// delegates. The override travels in a header of the test request.
	wrapped := httptest.NewServer(http.HandlerFunc(func(rw http.ResponseWriter, req *http.Request) {
		_ = req.ParseForm()
		if ov, err := url.ParseQuery(req.Header.Get("X-Override")); err == nil {
			for k, v := range ov {
				req.Form[k] = v
			}
		}
		webstack.SnapshotHandler(rw, req)
	}))
	defer closeServer(wrapped)
	n := 0
	// One request at a time against thirty parked goroutines takes milliseconds. No answer
	// within 60 s is confirmed once with a longer limit; a second silence is the handler not
	// answering, not a busy machine.
	sequential := func(mk func() *http.Request, what string) (*http.Response, error) {
		resp, err := client.Do(mk())
		if err != nil && timeoutIsHarness(err) != "" {
			statsFor("C20").note("a sequential request got no answer within 60s; retrying with 240s")
			resp, err = (&http.Client{Timeout: 240 * time.Second}).Do(mk())
			if err != nil && timeoutIsHarness(err) != "" {
				return nil, fmt.Errorf("%s (request %d of a sequential session, after %d answered ones) got no answer within 60 s and again within 240 s", what, n+1, n)
			}
		}
		if err != nil {
			return nil, fmt.Errorf("%s: %v", what, err)
		}
		return resp, nil
	}
	for i, ov := range []c20Req{
		{Method: "GET", Similarity: sp("bogus")}, {Method: "GET", Augment: sp("7")}, {Method: "GET", Maxmem: sp("abc")},
		{Method: "GET", Similarity: sp("anyvalue"), Augment: sp("0")}, {Method: "GET", Augment: sp("0"), Maxmem: sp("2097152")},
	} {
		// the URL carries the opposite kind of value for the same parameters
		u := c20Req{Method: "GET", Augment: sp("0")}
		if ov.expect() == 200 {
			u = c20Req{Method: "GET", Similarity: sp("bogus"), Augment: sp("x"), Maxmem: sp("y")}
			if ov.Similarity == nil {
				u.Similarity = nil
			}
			if ov.Augment == nil {
				u.Augment = nil
			}
			if ov.Maxmem == nil {
				u.Maxmem = nil
			}
		}
		resp, err := sequential(func() *http.Request {
			req, _ := http.NewRequest("GET", wrapped.URL+"/debug?"+u.query(), nil)
			req.Header.Set("X-Override", ov.query())
			return req
		}, fmt.Sprintf("wrapped GET %d ?%s overridden with ?%s", i, u.query(), ov.query()))
		if err != nil {
			return err
		}
		body, _ := io.ReadAll(resp.Body)
		resp.Body.Close()
		if err := c20CheckResponse(&ov, resp.StatusCode, resp.Header.Get("Content-Type"), body, len(w.stable), runtime.NumGoroutine()+64); err != nil {
			return fmt.Errorf("a wrapper overrides the form values with ?%s (the URL says ?%s): %v", ov.query(), u.query(), err)
		}
		n++
	}
	for _, mm := range []string{"-", "", "1048576", "1", "x", "1e6", "0x10", "2147483648", "1099511627776"} {
		for _, au := range []string{"-", "", "0", "1", "2", "x", "-1", "true", "01", "+1"} {
			for _, si := range []string{"-", "", "anyvalue", "exactflags", "alike"} {
				r := c20Req{Method: "GET", Maxmem: opt(mm), Augment: opt(au), Similarity: opt(si)}
				resp, err := sequential(func() *http.Request {
					req, _ := http.NewRequest("GET", srv.URL+"/debug?"+r.query(), nil)
					return req
				}, "GET ?"+r.query())
				if err != nil {
					return err
				}
				body, rerr := io.ReadAll(resp.Body)
				resp.Body.Close()
				if rerr != nil {
					return fmt.Errorf("%sGET ?%s: reading the response: %v", timeoutIsHarness(rerr), r.query(), rerr)
				}
				if err := c20CheckResponse(&r, resp.StatusCode, resp.Header.Get("Content-Type"), body, len(w.stable), runtime.NumGoroutine()+64); err != nil {
					return err
				}
				n++
			}
		}
	}
	statsFor("C20").count(int64(n), int64(n))
	statsFor("C20").class("parameter_grid_requests", int64(n))
	return nil
}

func init() {
	register("C20/grid", func(m map[string]int) error { return c20Grid() })
	register(c20.key(), c20.Oracle)
	register("C20/big", func(m map[string]int) error { return c20Big(m["extra"]) })
}

func TestC20(t *testing.T) {
	// the sequential grid first: its verdicts do not depend on how busy the machine is
	if cfg.Shard == 1%cfg.NShards {
		if err := guard(c20Grid); err != nil {
			inconclusiveIfHarness("C20/grid", err)
			statsFor("C20").markFailed()
			p := saveReplay("C20", "C20/grid", map[string]int{}, err)
			t.Fatalf("property C20 violated (C20/grid): %v\nreplay=%s", err, p)
		}
	}
	c := c20
	c.Checks = n(8, 120)
	c.Run(t)
	g := c20Grow
	g.Checks = n(6, 80)
	g.Run(t)
	f := c20First
	f.Checks = n(6, 120)
	f.Run(t)
	if cfg.Shard == 0 {
		extra := 6000
		if err := guard(func() error { return c20Big(extra) }); err != nil {
			inconclusiveIfHarness("C20/big", err)
			statsFor("C20").markFailed()
			p := saveReplay("C20", "C20/big", map[string]int{"extra": extra}, err)
			t.Fatalf("property C20 violated (C20/big): %v\nreplay=%s", err, p)
		}
	}
}
