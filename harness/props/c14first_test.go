package props

// C14/firstuse: concurrency from the very first call. The concurrent check of c14_test.go
// computes its sequential reference first, so anything the library initialises lazily is
// already initialised when its goroutines start. Here every case runs in a fresh process
// (this test binary re-executed, built with -race) whose first library calls are the
// concurrent ones: N goroutines behind a barrier each scan, aggregate and render their own or
// a shared snapshot in a generated order; the sequential reference is computed afterwards.
// A race report makes the child exit 66; a result that differs from the reference is printed.

import (
	"bytes"
	"encoding/json"
	"fmt"
	"io"
	"os"
	"os/exec"
	"reflect"
	"runtime"
	"strings"
	"sync"
	"testing"

	"github.com/maruel/panicparse/v2/stack"
	"pgregory.net/rapid"
)

type c14FirstCase struct {
	D       DumpM
	Workers [][]int // ops: 0 scan+Aggregate(AnyPointer)+ToHTML, 1 scan+Snapshot.ToHTML, 2 scan with all options, 3 scan+Aggregate at the 4 levels, 4 shared snapshot ToHTML (scanned by whoever comes first, under a sync.Once)
	Procs   int
}

func c14FirstRun(c *c14FirstCase) error {
	fix := fixtureDir()
	x := bytes.ReplaceAll(c.D.Print(), []byte("@FIX@"), []byte(fix))
	full := func() *stack.Opts {
		return &stack.Opts{NameArguments: true, GuessPaths: true, AnalyzeSources: true, LocalGOROOT: runtime.GOROOT(), LocalGOPATHs: []string{fix + "/gopath", fix}}
	}
	type result struct {
		op   int
		html []byte
		snap *stack.Snapshot
		aggs [4][]*stack.Bucket
	}
	runtime.GOMAXPROCS(c.Procs)
	var once sync.Once
	var sharedSnap *stack.Snapshot
	do := func(op int) (result, error) {
		r := result{op: op}
		opts := &stack.Opts{NameArguments: true}
		if op == 2 {
			opts = full()
		}
		var s *stack.Snapshot
		if op == 4 {
			once.Do(func() {
				sharedSnap, _, _ = stack.ScanSnapshot(bytes.NewReader(x), io.Discard, &stack.Opts{NameArguments: true})
			})
			s = sharedSnap
		} else {
			s, _, _ = stack.ScanSnapshot(bytes.NewReader(x), io.Discard, opts)
		}
		if s == nil {
			return r, fmt.Errorf("no snapshot")
		}
		r.snap = s
		var b bytes.Buffer
		switch op {
		case 0:
			if err := s.Aggregate(stack.AnyPointer).ToHTML(&b, ""); err != nil {
				return r, err
			}
		case 1, 4:
			if err := s.ToHTML(&b, ""); err != nil {
				return r, err
			}
		case 3:
			for i, l := range allLevels {
				r.aggs[i] = s.Aggregate(l).Buckets
			}
		}
		r.html = maskHTML(b.Bytes())
		return r, nil
	}
	results := make([][]result, len(c.Workers))
	errs := make([]error, len(c.Workers))
	start := make(chan struct{})
	var wg sync.WaitGroup
	for w, ops := range c.Workers {
		wg.Add(1)
		go func(w int, ops []int) {
			defer wg.Done()
			<-start
			for _, op := range ops {
				r, err := do(op)
				if err != nil {
					errs[w] = fmt.Errorf("worker %d op %d: %v", w, op, err)
					return
				}
				results[w] = append(results[w], r)
			}
		}(w, ops)
	}
	close(start)
	wg.Wait()
	for _, e := range errs {
		if e != nil {
			return e
		}
	}
	// the sequential reference, afterwards
	ref := map[int]result{}
	for w := range results {
		for _, r := range results[w] {
			want, ok := ref[r.op]
			if !ok {
				var err error
				if want, err = do(r.op); err != nil {
					return fmt.Errorf("sequential op %d: %v", r.op, err)
				}
				ref[r.op] = want
			}
			if !bytes.Equal(r.html, want.html) {
				return fmt.Errorf("worker %d op %d: HTML rendered during the concurrent first use differs from the sequential rendering: %s", w, r.op, firstDiffBytes(want.html, r.html))
			}
			if !reflect.DeepEqual(r.snap.Goroutines, want.snap.Goroutines) {
				return fmt.Errorf("worker %d op %d: snapshot scanned during the concurrent first use differs from the sequential one", w, r.op)
			}
			if !reflect.DeepEqual(r.aggs, want.aggs) {
				return fmt.Errorf("worker %d op %d: buckets aggregated during the concurrent first use differ from the sequential ones", w, r.op)
			}
		}
	}
	return nil
}

// TestHelperFirstUse is the child process of c14FirstOracle.
func TestHelperFirstUse(t *testing.T) {
	p := os.Getenv("VERIF_HELPER_FIRSTUSE")
	if p == "" {
		t.Skip()
	}
	b, err := os.ReadFile(p)
	if err != nil {
		t.Fatal(err)
	}
	var c c14FirstCase
	if err := json.Unmarshal(b, &c); err != nil {
		t.Fatal(err)
	}
	if err := c14FirstRun(&c); err != nil {
		fmt.Printf("FIRSTUSE-FAIL %s\n", strings.ReplaceAll(err.Error(), "\n", " "))
		return
	}
	fmt.Println("FIRSTUSE-OK")
}

func c14FirstOracle(c c14FirstCase) error {
	f, err := os.CreateTemp(os.Getenv("VERIF_WORK"), "first*.json")
	if err != nil {
		return fmt.Errorf("HARNESS: %v", err)
	}
	defer os.Remove(f.Name())
	b, _ := json.Marshal(c)
	f.Write(b)
	f.Close()
	cmd := exec.Command(os.Args[0], "-test.run", "^TestHelperFirstUse$", "-test.count=1", "-test.timeout=300s")
	env := []string{}
	for _, e := range os.Environ() {
		if !strings.HasPrefix(e, "GORACE=") && !strings.HasPrefix(e, "VERIF_STATS_DIR=") {
			env = append(env, e)
		}
	}
	cmd.Env = append(env, "VERIF_HELPER_FIRSTUSE="+f.Name(), "VERIF_STATS_DIR=", "GORACE=halt_on_error=1 exitcode=66")
	out, err := cmd.CombinedOutput()
	if bytes.Contains(out, []byte("WARNING: DATA RACE")) {
		i := bytes.Index(out, []byte("WARNING: DATA RACE"))
		return fmt.Errorf("data race when the first library calls of a process run concurrently:\n%s", truncBytes(out[i:], 3000))
	}
	if i := bytes.Index(out, []byte("FIRSTUSE-FAIL ")); i >= 0 {
		return fmt.Errorf("%s", truncBytes(out[i+len("FIRSTUSE-FAIL "):], 2000))
	}
	if err != nil || !bytes.Contains(out, []byte("FIRSTUSE-OK")) {
		if bytes.Contains(out, []byte("panic:")) || bytes.Contains(out, []byte("fatal error:")) {
			return fmt.Errorf("the fresh process crashed: %s", truncBytes(out, 3000))
		}
		return fmt.Errorf("HARNESS: helper process: %v\n%s", err, truncBytes(out, 1500))
	}
	return nil
}

var c14First = Check[c14FirstCase]{
	Prop: "C14", Name: "firstuse",
	Gen: func(t *rapid.T) c14FirstCase {
		cc := c14Conc.Gen(t)
		c := c14FirstCase{D: cc.D, Procs: rapid.SampledFrom([]int{2, 4, 16}).Draw(t, "firstProcs")}
		for w, nw := 0, rapid.IntRange(2, 12).Draw(t, "firstWorkers"); w < nw; w++ {
			c.Workers = append(c.Workers, rapid.SliceOfN(rapid.IntRange(0, 4), 1, 3).Draw(t, "firstOps"))
		}
		return c
	},
	Oracle: c14FirstOracle,
	Obs: func(c c14FirstCase) Obs {
		return Obs{Nontrivial: len(c.Workers) >= 2, Digest: digestBytes(c.D.Print(), []byte(fmt.Sprint(c.Workers, c.Procs))), Classes: []string{"fresh_process_concurrent_first_use"},
			Sample: map[string]any{"workers": c.Workers, "gomaxprocs": c.Procs}}
	},
}

func init() { register(c14First.key(), c14First.Oracle) }
