package props

import (
	"bytes"
	"strings"
	"testing"

	"pgregory.net/rapid"
)

// Native coverage-guided fuzz targets (thorough tier only; Go's fuzzer cannot be seeded, the
// saved failing input is the reproducible unit). Every target wraps the same oracle as the
// generated checks and writes a replay file in the harness' own format before failing.

func fuzzSeeds() [][]byte {
	var out [][]byte
	out = append(out, []byte(strings.Join(hostileLines, "\n")+"\n"))
	for _, pre := range parkPrefixes {
		c := seqCase{Prefix: pre, Seq: []int{7, 0, 3, 5}}
		out = append(out, c.bytes())
		c = seqCase{Prefix: pre, Seq: []int{4, 11, 12, 21}, NoEOL: true, CRLF: true}
		out = append(out, c.bytes())
	}
	gen := rapid.Custom(func(t *rapid.T) []byte {
		o := streamOptsDefault()
		o.Junk.Long, o.Dump.LongLines = false, false
		s := genStream(t, o)
		return s.Bytes()
	})
	for i := 0; i < 24; i++ {
		out = append(out, gen.Example(i))
	}
	out = append(out, []byte(c09Dump), bytes.Repeat([]byte("x"), 16385), []byte("goroutine 1 [running]:\nmain.%41%41()\n\t/a.go:1\n"),
		[]byte("goroutine 1 [running]:\nmain.f({{{{{{0x1}}}}}})\n\t/a.go:1 +0x1\n\n==================\nWARNING: DATA RACE\nRead at 0x1 by goroutine 1:\n"))
	return out
}

func FuzzC03(f *testing.F) {
	for _, s := range fuzzSeeds() {
		f.Add(s)
	}
	f.Fuzz(func(t *testing.T, x []byte) {
		if len(x) > 1<<16 {
			return
		}
		c := c03Case{X: x, Mode: len(x) % 3}
		if err := guard(func() error { return c03Oracle(c) }); err != nil {
			p := saveReplay("C03", c03Mut.key(), c, err)
			t.Fatalf("property C03 violated: %v\nreplay=%s", err, p)
		}
	})
}

func FuzzC02(f *testing.F) {
	for _, s := range fuzzSeeds() {
		f.Add(s)
	}
	f.Fuzz(func(t *testing.T, x []byte) {
		if len(x) > 1<<16 {
			return
		}
		c := c02LawCase{X: x}
		if err := guard(func() error { return c02LawOracle(c) }); err != nil {
			p := saveReplay("C02", c02Law.key(), c, err)
			t.Fatalf("property C02 violated: %v\nreplay=%s", err, p)
		}
	})
}

func FuzzC07(f *testing.F) {
	for _, s := range fuzzSeeds() {
		f.Add(s)
	}
	f.Fuzz(func(t *testing.T, x []byte) {
		if len(x) > 1<<14 {
			return
		}
		c := c07RefCase{X: x}
		if err := guard(func() error { return c07Ref.Oracle(c) }); err != nil {
			p := saveReplay("C07", c07Ref.key(), c, err)
			t.Fatalf("property C07 violated: %v\nreplay=%s", err, p)
		}
	})
}

func FuzzC09(f *testing.F) {
	for i, s := range fuzzSeeds() {
		f.Add(s, []byte{1, 2, 0, 0, 3, byte(i), 200}, i%2 == 0)
	}
	f.Fuzz(func(t *testing.T, x []byte, sched []byte, eofWithData bool) {
		if len(x) > 1<<16 || len(sched) > 4096 {
			return
		}
		s := Sched{EOFWithData: eofWithData}
		zeros := 0
		for _, b := range sched {
			if b == 0 {
				zeros++
				if zeros > 99 {
					continue // the documented retry bound
				}
			} else {
				zeros = 0
			}
			s.Chunks = append(s.Chunks, int(b))
		}
		c := c09Case{X: x, S: s}
		if err := guard(func() error { return c09Oracle(c) }); err != nil {
			p := saveReplay("C09", c09Mut.key(), c, err)
			t.Fatalf("property C09 violated: %v\nreplay=%s", err, p)
		}
	})
}

func FuzzC10(f *testing.F) {
	// cut point and fault mode are fuzzed along with the text around a fixed small dump
	f.Add([]byte("pre\n"), []byte("post\nmore\n"), uint16(40), uint8(0))
	f.Add([]byte(""), []byte(""), uint16(7), uint8(3))
	f.Fuzz(func(t *testing.T, pre, post []byte, cut uint16, mode uint8) {
		if len(pre) > 2000 || len(post) > 2000 {
			return
		}
		clean := func(b []byte) []byte {
			var out []byte
			for _, l := range splitLines(b) {
				if startsDump(l) {
					l = append([]byte("# "), l...)
				}
				out = append(out, l...)
			}
			return out
		}
		pre, post = clean(pre), clean(post)
		if len(pre) > 0 && pre[len(pre)-1] != '\n' {
			pre = append(pre, '\n')
		}
		d := DumpM{FileIndent: "\t", Gs: []GM{
			{ID: 7, State: "chan receive", Minutes: 2, ElideAt: -1, Frames: []FrameM{{Pkg: "main", Name: "f", File: "/a/b.go", Line: 12, PCOff: 3, Args: ArgListM{Items: []ArgM{{Val: 0xc000012345}, {Agg: &ArgListM{Items: []ArgM{{Val: 1}}}}}}}}, Creator: &CreatorM{Pkg: "main", Name: "g", Parent: 1, File: "/a/c.go", Line: 3, PCOff: 2}},
			{ID: 9, State: "select", ElideAt: -1, Frames: []FrameM{{Pkg: "net/http", Name: "(*T).M", File: "/a/d.go", Line: 5, PCOff: 1}}},
		}}
		it := Item{Dump: &d, Blank: len(post)%2 == 0}
		it.After = fixAfter(&it, post, true)
		s := StreamM{Pre: pre, Items: []Item{it}}
		x := s.Bytes()
		c := c10Case{S: s, C: int(cut) % (len(x) + 1), Mode: int(mode) % 4}
		if err := guard(func() error { return c10Oracle(c) }); err != nil {
			p := saveReplay("C10", c10.key(), c, err)
			t.Fatalf("property C10 violated: %v\nreplay=%s", err, p)
		}
	})
}
