package props

import (
	"bytes"
	"encoding/json"
	"fmt"
	"html/template"
	"os"
	"os/exec"
	"reflect"
	"regexp"
	"sync/atomic"
	"testing"

	"github.com/maruel/panicparse/v2/stack"
	"pgregory.net/rapid"
)

// C06 — determinism: same input, same output.

var reCreatedOn = regexp.MustCompile(`Created on [^<]*`)
var reMaxProcs = regexp.MustCompile(`GOMAXPROCS: [0-9]+`)

// maskHTML removes what legitimately varies between two renderings of the same snapshot: the
// creation time (and GOMAXPROCS, which some checks change themselves).
func maskHTML(b []byte) []byte {
	return reMaxProcs.ReplaceAll(reCreatedOn.ReplaceAll(b, []byte("Created on X")), []byte("GOMAXPROCS: N"))
}

// renderAll is everything observable of one pipeline run.
type renderAll struct {
	snap    *stack.Snapshot
	buckets [4][]*stack.Bucket
	htmlAgg []byte
	htmlSn  []byte
}

func runPipeline(x []byte, opts *stack.Opts, html bool) (*renderAll, error) {
	snap, err := scanAloneOpts(x, opts)
	if snap == nil {
		return nil, fmt.Errorf("no snapshot: %v", err)
	}
	r := &renderAll{snap: snap}
	for i, l := range allLevels {
		r.buckets[i] = snap.Aggregate(l).Buckets
	}
	if html {
		var b bytes.Buffer
		if err := snap.Aggregate(stack.AnyPointer).ToHTML(&b, template.HTML("")); err != nil {
			return nil, fmt.Errorf("ToHTML: %v", err)
		}
		r.htmlAgg = maskHTML(b.Bytes())
		b = bytes.Buffer{}
		if err := snap.ToHTML(&b, template.HTML("")); err != nil {
			return nil, fmt.Errorf("ToHTML: %v", err)
		}
		r.htmlSn = maskHTML(b.Bytes())
	}
	return r, nil
}

func bucketIDs(bs []*stack.Bucket) [][]int {
	var out [][]int
	for _, b := range bs {
		out = append(out, b.IDs)
	}
	return out
}

func sameRun(a, b *renderAll, rep int) error {
	if !reflect.DeepEqual(a.snap, b.snap) {
		for i := range a.snap.Goroutines {
			if i < len(b.snap.Goroutines) && !reflect.DeepEqual(a.snap.Goroutines[i], b.snap.Goroutines[i]) {
				return fmt.Errorf("repetition %d: goroutine %d of the snapshot differs from the first run (%s)", rep, a.snap.Goroutines[i].ID, diffGoroutine(a.snap.Goroutines[i], b.snap.Goroutines[i]))
			}
		}
		return fmt.Errorf("repetition %d: snapshot differs from the first run (roots: %q %v %v vs %q %v %v)", rep, a.snap.RemoteGOROOT, a.snap.RemoteGOPATHs, a.snap.LocalGomods, b.snap.RemoteGOROOT, b.snap.RemoteGOPATHs, b.snap.LocalGomods)
	}
	for i, l := range allLevels {
		if !reflect.DeepEqual(bucketIDs(a.buckets[i]), bucketIDs(b.buckets[i])) {
			return fmt.Errorf("repetition %d: %s buckets come out in a different order: %v vs %v", rep, levelNames[l], bucketIDs(a.buckets[i]), bucketIDs(b.buckets[i]))
		}
		if !reflect.DeepEqual(a.buckets[i], b.buckets[i]) {
			return fmt.Errorf("repetition %d: %s bucket signatures differ", rep, levelNames[l])
		}
	}
	if !bytes.Equal(a.htmlAgg, b.htmlAgg) {
		return fmt.Errorf("repetition %d: aggregated HTML differs: %s", rep, firstDiffBytes(a.htmlAgg, b.htmlAgg))
	}
	if !bytes.Equal(a.htmlSn, b.htmlSn) {
		return fmt.Errorf("repetition %d: snapshot HTML differs: %s", rep, firstDiffBytes(a.htmlSn, b.htmlSn))
	}
	return nil
}

func diffGoroutine(a, b *stack.Goroutine) string {
	for i := range a.Stack.Calls {
		if i < len(b.Stack.Calls) && !reflect.DeepEqual(a.Stack.Calls[i], b.Stack.Calls[i]) {
			x, y := a.Stack.Calls[i], b.Stack.Calls[i]
			return fmt.Sprintf("frame %d: local=%q rel=%q import=%q loc=%s vs local=%q rel=%q import=%q loc=%s", i, x.LocalSrcPath, x.RelSrcPath, x.ImportPath, x.Location, y.LocalSrcPath, y.RelSrcPath, y.ImportPath, y.Location)
		}
	}
	return "other fields"
}

type c06Case struct {
	D      DumpM
	Other  DumpM // an unrelated input processed between repetitions
	Naming bool
}

func reps() int { return n(16, 32) }

func c06Oracle(c c06Case) error {
	x, other := c.D.Print(), c.Other.Print()
	opts := &stack.Opts{NameArguments: c.Naming}
	first, err := runPipeline(x, opts, true)
	if err != nil {
		return err
	}
	// Earlier calls on the very same snapshot must not matter either: aggregate it again,
	// coarsest level first, and compare with the first results.
	for li := len(allLevels) - 1; li >= 0; li-- {
		if again := first.snap.Aggregate(allLevels[li]).Buckets; !reflect.DeepEqual(again, first.buckets[li]) {
			return fmt.Errorf("Aggregate(%s) on the same snapshot gives different buckets after other aggregations: %v vs %v", levelNames[allLevels[li]], bucketIDs(again), bucketIDs(first.buckets[li]))
		}
	}
	for r := 1; r < reps(); r++ {
		if r%3 == 1 {
			_, _ = runPipeline(other, opts, r%6 == 1)
		}
		if r%3 == 2 {
			// an earlier call of a different kind: last data delivered together with io.EOF,
			// text after the dump, scan stopped before the input was drained
			d := Delivery{EOFWithData: true, Chunk: []int{0, 64}[r%2]}
			_, _, _ = stack.ScanSnapshot(d.reader(append(append([]byte{}, other...), "\ntrailing text\nmore text\n"...)), discard{}, opts)
		}
		again, err := runPipeline(x, opts, r%4 == 1)
		if err != nil {
			return err
		}
		if r%4 != 1 {
			again.htmlAgg, again.htmlSn = first.htmlAgg, first.htmlSn
		}
		if err := sameRun(first, again, r); err != nil {
			return err
		}
	}
	return nil
}

// tiedBuckets: two buckets that tie under everything the ordering can see.
func tiedBuckets(d *DumpM) bool {
	s, err := parseDump(d, plainOpts())
	if err != nil {
		return false
	}
	for _, l := range allLevels {
		seen := map[string]bool{}
		for _, b := range s.Aggregate(l).Buckets {
			if b.First {
				continue
			}
			k := fmt.Sprintf("%v|%s|%d", b.Locked, b.State, len(b.IDs))
			for _, c := range b.Stack.Calls {
				k += fmt.Sprintf("|%s %s %d %d", c.Func.Complete, c.DirSrc, c.Line, c.Location)
			}
			if seen[k] {
				return true
			}
			seen[k] = true
		}
	}
	return false
}

var c06Dump = Check[c06Case]{
	Prop: "C06", Name: "inproc",
	Gen: func(t *rapid.T) c06Case {
		c := c06Case{D: genAggDump(t, 30), Other: genAggDump(t, 6), Naming: rapid.Bool().Draw(t, "naming")}
		if len(c.D.Gs) >= 2 && oneIn(t, 4, "duplicateID") {
			// several dumps logged back to back parse as one snapshot: ids can repeat
			k := rapid.IntRange(1, len(c.D.Gs)-1).Draw(t, "dupAt")
			c.D.Gs[k].ID = c.D.Gs[rapid.IntRange(0, k-1).Draw(t, "dupOf")].ID
		}
		return c
	},
	Oracle: c06Oracle,
	Obs: func(c c06Case) Obs {
		tie := tiedBuckets(&c.D)
		cl := []string{}
		if tie {
			cl = append(cl, "buckets_tying_under_the_ordering")
		}
		return Obs{Nontrivial: tie, Digest: digestBytes(c.D.Print(), []byte{b2b(c.Naming)}), Classes: cl, Sample: quoteShort(truncBytes(c.D.Print(), 900))}
	},
}

// ---- layouts with nested modules / overlapping roots ---------------------------------------

var c06LayoutSeq atomic.Int64

func c06LayoutOracle(c c18Case) error {
	base, done := scratchDir("c06")
	defer done()
	if c.L.GorootRemote != "" && !c.L.Toolchain {
		// a remote Go root no earlier case of this process has used (c is this call's copy)
		c.L.GorootRemote += fmt.Sprintf("-%d", c06LayoutSeq.Add(1))
	}
	if err := c.L.materialise(base); err != nil {
		return fmt.Errorf("HARNESS: %v", err)
	}
	truths := c.L.truths(base)
	var refs []string
	for _, t := range truths {
		refs = append(refs, t.Remote)
	}
	var order []int
	for _, k := range c.Order {
		if k < len(truths) {
			order = append(order, k)
		}
	}
	if len(order) == 0 {
		return nil
	}
	d := dumpFor(refs, order)
	x := d.Print()
	// Overlapping local GOPATH roots too: the same directory listed twice and a parent/child pair.
	gps := c.L.localGopaths(base)
	if len(gps) > 0 {
		gps = append(gps, gps[0]+"/src")
	}
	opts := &stack.Opts{GuessPaths: true, NameArguments: true, LocalGOROOT: c.L.localGoroot(base), LocalGOPATHs: gps}
	// An earlier dump must not matter: the frames that do not establish the Go root (everything
	// but the standard-library files present locally) are scanned on their own before the
	// whole dump was ever seen, and again afterwards.
	var sub []int
	for _, k := range order {
		if t := truths[k]; !(t.Known && t.Present && t.Loc == stack.Stdlib) {
			sub = append(sub, k)
		}
	}
	var part []byte
	var partBefore *renderAll
	if len(sub) > 0 && len(sub) < len(order) {
		pd := dumpFor(refs, sub)
		part = pd.Print()
		partBefore, _ = runPipeline(part, opts, false)
	}
	first, err := runPipeline(x, opts, true)
	if err != nil {
		return err
	}
	if partBefore != nil {
		after, err := runPipeline(part, opts, false)
		if err != nil {
			return err
		}
		if err := sameRun(partBefore, after, 0); err != nil {
			return fmt.Errorf("a dump scanned before and after another dump of the same machine: %v", err)
		}
		statsFor("C06").class("partial_dump_before_and_after_the_whole_dump", 1)
	}
	for r := 1; r < reps(); r++ {
		again, err := runPipeline(x, opts, r%8 == 1)
		if err != nil {
			return err
		}
		if r%8 != 1 {
			again.htmlAgg, again.htmlSn = first.htmlAgg, first.htmlSn
		}
		if err := sameRun(first, again, r); err != nil {
			return err
		}
	}
	return nil
}

var c06Layout = Check[c18Case]{
	Prop: "C06", Name: "layout",
	Gen: func(t *rapid.T) c18Case {
		l := genLayout(t, true)
		nt := len(l.truths(""))
		if nt == 0 {
			l.Extra = append(l.Extra, "/nowhere/a.go")
			nt = 1
		}
		idx := make([]int, nt)
		for i := range idx {
			idx[i] = i
		}
		perm := rapid.Permutation(idx).Draw(t, "refs")
		return c18Case{L: l, Order: perm[:rapid.IntRange(1, min(nt, 14)).Draw(t, "nrefs")]}
	},
	Oracle: c06LayoutOracle,
	Obs: func(c c18Case) Obs {
		nested := false
		for i, m := range c.L.Modules {
			for j, o := range c.L.Modules {
				if i != j && len(m.Dir) > len(o.Dir) && m.Dir[:len(o.Dir)+1] == o.Dir+"/" {
					nested = true
				}
			}
		}
		cl := []string{}
		if nested {
			cl = append(cl, "nested_modules")
		}
		if len(c.L.Gopaths) > 0 {
			cl = append(cl, "overlapping_gopath_roots")
		}
		return Obs{Nontrivial: nested || len(c.L.Gopaths) > 0, Digest: digestOf(c), Classes: cl, Sample: c}
	},
}

// ---- across processes ---------------------------------------------------------------------

type c06PPCase struct {
	D     DumpM
	Flags []string
}

func c06PPOracle(c c06PPCase) error {
	x := c.D.Print()
	args := append([]string{"-rebase=false"}, c.Flags...)
	first, err := runPP(x, args...)
	if err != nil {
		return err
	}
	for k := 1; k < n(6, 8); k++ {
		again, err := runPP(x, args...)
		if err != nil {
			return err
		}
		if again.Code != first.Code || !bytes.Equal(again.Out, first.Out) {
			return fmt.Errorf("run %d of pp %v differs from the first: %s", k, args, firstDiffBytes(first.Out, again.Out))
		}
	}
	// the HTML file written by pp, twice
	var htmlRef []byte
	for k := 0; k < 2; k++ {
		hf, err := os.CreateTemp(os.Getenv("VERIF_WORK"), "out*.html")
		if err != nil {
			return fmt.Errorf("HARNESS: %v", err)
		}
		hf.Close()
		_, err = runPP(x, "-rebase=false", "-html", hf.Name())
		b, _ := os.ReadFile(hf.Name())
		os.Remove(hf.Name())
		if err != nil {
			return err
		}
		b = maskHTML(b)
		if k == 0 {
			htmlRef = b
		} else if !bytes.Equal(htmlRef, b) {
			return fmt.Errorf("pp -html differs between two runs: %s", firstDiffBytes(htmlRef, b))
		}
	}
	// and the library in separate processes
	f, err := os.CreateTemp(os.Getenv("VERIF_WORK"), "in*.txt")
	if err != nil {
		return fmt.Errorf("HARNESS: %v", err)
	}
	defer os.Remove(f.Name())
	f.Write(x)
	f.Close()
	// The last helper process first scans the same dump with its symbols spelled the other way
	// (the runtime escapes a dot in the last import path element as %2e, other producers do
	// not): an earlier call in the same process must not change the result.
	twin := bytes.ReplaceAll(x, []byte("%2e"), []byte("."))
	tf, err := os.CreateTemp(os.Getenv("VERIF_WORK"), "twin*.txt")
	if err != nil {
		return fmt.Errorf("HARNESS: %v", err)
	}
	defer os.Remove(tf.Name())
	tf.Write(twin)
	tf.Close()
	var ref []byte
	for k := 0; k < 3; k++ {
		cmd := exec.Command(os.Args[0], "-test.run", "^TestHelperSnapdump$", "-test.count=1")
		cmd.Env = append(os.Environ(), "VERIF_HELPER_INPUT="+f.Name(), "VERIF_STATS_DIR=")
		if k == 2 && !bytes.Equal(twin, x) {
			cmd.Env = append(cmd.Env, "VERIF_HELPER_FIRST="+tf.Name())
			statsFor("C06").class("helper_process_scanning_the_other_spelling_first", 1)
		}
		out, err := cmd.Output()
		if err != nil {
			return fmt.Errorf("HARNESS: helper: %v", err)
		}
		i := bytes.Index(out, []byte("SNAPDUMP "))
		if i < 0 {
			return fmt.Errorf("HARNESS: helper printed no dump")
		}
		out = out[i:]
		if j := bytes.IndexByte(out, '\n'); j >= 0 {
			out = out[:j]
		}
		if k == 0 {
			ref = out
		} else if !bytes.Equal(ref, out) {
			return fmt.Errorf("library result differs between processes: %s", firstDiffBytes(ref, out))
		}
	}
	return nil
}

// TestHelperSnapdump is run as a separate process by c06PPOracle.
func TestHelperSnapdump(t *testing.T) {
	p := os.Getenv("VERIF_HELPER_INPUT")
	if p == "" {
		t.Skip()
	}
	x, err := os.ReadFile(p)
	if err != nil {
		t.Fatal(err)
	}
	if fp := os.Getenv("VERIF_HELPER_FIRST"); fp != "" {
		if first, err := os.ReadFile(fp); err == nil {
			_, _ = runPipeline(first, &stack.Opts{NameArguments: true}, false)
		}
	}
	r, err := runPipeline(x, &stack.Opts{NameArguments: true}, false)
	if err != nil {
		t.Fatal(err)
	}
	b, _ := json.Marshal(map[string]any{"snapshot": r.snap, "buckets": r.buckets})
	fmt.Printf("SNAPDUMP %s\n", b)
}

var c06PP = Check[c06PPCase]{
	Prop: "C06", Name: "procs",
	Gen: func(t *rapid.T) c06PPCase {
		return c06PPCase{D: genAggDump(t, 20),
			Flags: rapid.SampledFrom([][]string{{"-no-color"}, {"-force-color"}, {"-no-color", "-full-path"}, {"-no-color", "-aggressive"}, {"-force-color", "-rel-path"}}).Draw(t, "flags")}
	},
	Oracle: c06PPOracle,
	Obs: func(c c06PPCase) Obs {
		tie := tiedBuckets(&c.D)
		return Obs{Nontrivial: tie, Digest: digestBytes(c.D.Print(), []byte(fmt.Sprint(c.Flags))), Classes: []string{"separate_processes"}}
	},
}

func init() {
	register(c06Dump.key(), c06Dump.Oracle)
	register(c06Layout.key(), c06Layout.Oracle)
	register(c06PP.key(), c06PP.Oracle)
}

// c06Baits: fixed dumps in which one goroutine sits between two buckets - were similarity
// ever not transitive there (an inaccurate or unprintable value, an elided argument list, a
// missing argument), the bucket it joins would depend on the order a map is walked in. The
// repetitions of the in-process check sample that order.
func c06Baits() []DumpM {
	u := universe16()
	between := func(a ArgM) GM {
		g := u[2]
		g.Frames = cloneFrames(g.Frames)
		g.Frames[0].Args.Items = []ArgM{a}
		return g
	}
	sets := [][]GM{
		{u[2], u[3], between(ArgM{Val: 3, Inacc: true})},
		{u[0], u[1], between(ArgM{Val: 0xc000030003, Inacc: true})},
		{u[2], u[3], u[14]},
		{u[0], u[1], u[14], u[6]},
		{u[4], u[5], between(ArgM{Agg: &ArgListM{Items: []ArgM{{Val: 3, Inacc: true}}}})},
		{u[2], u[3], between(ArgM{Val: 3, Inacc: true}), u[0], u[1], between(ArgM{Val: 0xc000030003, Inacc: true}), u[14], u[6]},
	}
	var out []DumpM
	for _, gs := range sets {
		// a running goroutine first, so that none of the baits is the crashing one
		d := DumpM{FileIndent: "\t", Gs: []GM{{State: "running", ElideAt: -1, Frames: []FrameM{{Pkg: "main", Name: "main", File: "/a/m.go", Line: 3, PCOff: 1}}}}}
		for r := 0; r < 2; r++ {
			for _, g := range gs {
				g.Frames = cloneFrames(g.Frames)
				d.Gs = append(d.Gs, g)
			}
		}
		for i := range d.Gs {
			d.Gs[i].ID = i + 1
		}
		out = append(out, d)
	}
	return out
}

func TestC06(t *testing.T) {
	if cfg.Shard == 0 {
		baits := c06Baits()
		for i, d := range baits {
			for _, naming := range []bool{false, true} {
				if !c06Dump.Each(t, c06Case{D: d, Other: baits[(i+1)%len(baits)], Naming: naming}) {
					return
				}
			}
		}
		statsFor("C06").class("fixed_dumps_with_a_goroutine_between_two_buckets", int64(2*len(baits)))
	}
	a := c06Dump
	a.Checks = n(120, 1500)
	a.Run(t)
	b := c06Layout
	b.Checks = n(100, 1000)
	b.Run(t)
	c := c06PP
	c.Checks = n(10, 200)
	c.Run(t)
	d := c06Src
	d.Checks = n(3, 40)
	d.Run(t)
	e := c06Disk
	e.Checks = n(40, 600)
	e.Run(t)
}
