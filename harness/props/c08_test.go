package props

import (
	"bytes"
	"fmt"
	"io"
	"testing"

	"github.com/maruel/panicparse/v2/stack"
	"pgregory.net/rapid"
)

// C08 — race detector report fidelity.

type c08Case struct {
	S StreamM // exactly one race report in inert junk
	// BadAt >= 0: a creation section naming a goroutine that took part in no operation is
	// inserted before Secs[BadAt] (== len: appended).
	BadAt  int
	BadID  int
	BadFin bool
	D      Delivery
	// Lead: the surrounding text before the report ends with a goroutine dump (optionally a
	// blank line and more text); the report is then found by the next call of the loop.
	Lead *Item `json:",omitempty"`
}

func (c *c08Case) report() (*RaceM, *RaceM) {
	r := c.S.Items[0].Race
	if c.BadAt < 0 {
		return r, r
	}
	bad := *r
	bad.Secs = append([]RaceSec{}, r.Secs[:c.BadAt]...)
	bad.Secs = append(bad.Secs, RaceSec{ID: c.BadID, Finished: c.BadFin, Frames: []FrameM{{Pkg: "main", Name: "orphan", File: "/src/o.go", Line: 3, PCOff: 9}}})
	bad.Secs = append(bad.Secs, r.Secs[c.BadAt:]...)
	trunc := *r
	trunc.Secs = append([]RaceSec{}, r.Secs[:c.BadAt]...)
	return &bad, &trunc
}

func c08Oracle(c c08Case) error {
	printed, truth := c.report()
	s := c.S
	s.Items = []Item{{Race: printed, After: c.S.Items[0].After, NoEOL: c.S.Items[0].NoEOL}}
	if c.Lead != nil {
		s.Items = append([]Item{*c.Lead}, s.Items...)
	}
	x := s.Bytes()
	in := c.D.reader(x)
	var prefix bytes.Buffer
	opts, loose := variantOpts(x)
	defer looseFor(loose)()
	wantPrefix := s.Pre
	if c.Lead != nil {
		var w bytes.Buffer
		snap0, suffix0, err0 := stack.ScanSnapshot(in, &w, opts)
		if snap0 == nil || err0 != nil {
			return fmt.Errorf("goroutine dump in front of the report: snapshot=%v err=%v", snap0 != nil, err0)
		}
		if e := cmpGoroutines(c.Lead.expected(), snap0.Goroutines); e != nil {
			return fmt.Errorf("goroutine dump in front of the report: %v", e)
		}
		if !bytes.Equal(w.Bytes(), s.Pre) {
			return fmt.Errorf("text before the dump in front of the report: %s", firstDiffBytes(s.Pre, w.Bytes()))
		}
		in = io.MultiReader(bytes.NewReader(append([]byte{}, suffix0...)), in)
		wantPrefix = c.Lead.After
	}
	snap, suffix, err := stack.ScanSnapshot(in, &prefix, opts)
	rest, _ := io.ReadAll(in)
	if snap == nil {
		return fmt.Errorf("no snapshot (err=%v)", err)
	}
	if !bytes.Equal(prefix.Bytes(), wantPrefix) {
		return fmt.Errorf("text before the report: %s", firstDiffBytes(wantPrefix, prefix.Bytes()))
	}
	if !snap.IsRace() {
		return fmt.Errorf("IsRace() is false")
	}
	if e := cmpGoroutines(truth.Expected(), snap.Goroutines); e != nil {
		return e
	}
	if c.BadAt >= 0 {
		if err == nil || err == io.EOF {
			return fmt.Errorf("a 'created at' section for goroutine %d, which took part in no operation, was accepted (err=%v)", c.BadID, err)
		}
		return nil
	}
	if err != nil && err != io.EOF {
		return fmt.Errorf("unexpected error: %v", err)
	}
	if got := append(append([]byte{}, suffix...), rest...); !bytes.Equal(got, c.S.Items[0].After) {
		return fmt.Errorf("text after the closing separator: %s", firstDiffBytes(c.S.Items[0].After, got))
	}
	return nil
}

var c08 = Check[c08Case]{
	Prop: "C08", Name: "model",
	Gen: func(t *rapid.T) c08Case {
		o := StreamOpts{MinItems: 1, MaxItems: 1, NoDump: true,
			Race: RaceOpts{MaxOps: 9, MaxFrames: 12, Args: true},
			Junk: JunkOpts{MaxLines: 4, Binary: true, Long: true}}
		c := c08Case{S: genStream(t, o), BadAt: -1, D: genDelivery(t)}
		if oneIn(t, 5, "orphanSection") {
			r := c.S.Items[0].Race
			c.BadAt = rapid.IntRange(0, len(r.Secs)).Draw(t, "badAt")
			used := map[int]bool{}
			for _, op := range r.Ops {
				used[op.ID] = true
			}
			for {
				c.BadID = rapid.IntRange(1, 1000).Draw(t, "badID")
				if !used[c.BadID] {
					break
				}
			}
			c.BadFin = rapid.Bool().Draw(t, "badFin")
		}
		if oneIn(t, 4, "leadingDump") {
			lo := StreamOpts{MinItems: 1, MaxItems: 1, NoRace: true, Dump: DumpOpts{MaxG: 3, MaxFrames: 4, Variants: true}, Junk: JunkOpts{MaxLines: 2}}
			lead := genStream(t, lo).Items[0]
			lead.NoEOL = false
			if rapid.Bool().Draw(t, "nothingBetween") || len(lead.After) == 0 {
				// dump, optional blank line, report: keep the dump unindented (the separator
				// line would break a uniform indentation) and properly ended
				lead.After = nil
				d := *lead.Dump
				d.Indent, d.BlankIndent = "", false
				lead.Dump = &d
				if g := &d.Gs[len(d.Gs)-1]; g.Unavail && g.Creator == nil {
					lead.Blank = true
				}
			} else if n := len(lead.After); n > 0 && lead.After[n-1] != '\n' {
				lead.After = append(append([]byte{}, lead.After...), '\n')
			}
			c.Lead = &lead
		}
		return c
	},
	Oracle: c08Oracle,
	Obs: func(c c08Case) Obs {
		r := c.S.Items[0].Race
		var cl []string
		deep := false
		for _, op := range r.Ops {
			deep = deep || len(op.Frames) >= 3
		}
		for _, s := range r.Secs {
			deep = deep || len(s.Frames) >= 3
		}
		inOrder := true
		k := 0
		for _, s := range r.Secs {
			for k < len(r.Ops) && r.Ops[k].ID != s.ID {
				k++
			}
			if k == len(r.Ops) {
				inOrder = false
				break
			}
		}
		subset := len(r.Secs) < len(r.Ops)
		after := len(c.S.Items[0].After) > 0
		if c.Lead != nil {
			cl = append(cl, "goroutine_dump_in_front")
			if c.Lead.Blank && len(c.Lead.After) == 0 {
				cl = append(cl, "dump_blank_line_report")
			}
		}
		if deep {
			cl = append(cl, "deep_stack")
		}
		if !inOrder {
			cl = append(cl, "permuted_sections")
		}
		if subset {
			cl = append(cl, "subset_sections")
		}
		if after {
			cl = append(cl, "text_after")
		}
		if c.BadAt >= 0 {
			cl = append(cl, "orphan_section")
		}
		if len(r.Ops) > 2 {
			cl = append(cl, "ops_gt_2")
		}
		if c.D.Chunk > 0 {
			cl = append(cl, "chunked_delivery")
		}
		printed, _ := c.report()
		return Obs{Nontrivial: deep && (!inOrder || subset) && after, Digest: digestBytes(c.S.Pre, printed.Print(), c.S.Items[0].After, []byte(fmt.Sprint(c.D))), Classes: cl, Sample: quoteShort(append(append([]byte{}, c.S.Pre...), append(printed.Print(), c.S.Items[0].After...)...))}
	},
}

func init() { register(c08.key(), c08.Oracle) }

func TestC08(t *testing.T) {
	c := c08
	c.Checks = n(3000, 40000)
	c.Run(t)
}
