package props

import (
	"bytes"
	"fmt"
	"io"
	"reflect"
	"sort"
	"strconv"
	"strings"
	"testing"

	"github.com/maruel/panicparse/v2/stack"
	"pgregory.net/rapid"
)

// C15 — pointer pseudo-names are a consistent, dense, ordered labelling.

type c15Case struct {
	D    DumpM
	Race *RaceM `json:",omitempty"`
	// Tail: 0 none; 1 the dump is followed by a goroutine with a malformed frame (the snapshot
	// is returned together with a parse error); 2 the reader fails after the dump.
	Tail int
	// Fix: some frames lie in the fixture source tree and the scan runs with path guessing and
	// source analysis on (lengths and capacities are then decoded from words that may recur).
	Fix bool `json:",omitempty"`
}

type argOcc struct {
	arg     *stack.Arg
	inFirst bool
	nested  bool
}

func allScalarArgs(gs []*stack.Goroutine) []argOcc {
	var out []argOcc
	var walk func(a *stack.Args, first, nested bool)
	walk = func(a *stack.Args, first, nested bool) {
		for i := range a.Values {
			v := &a.Values[i]
			if v.IsAggregate {
				walk(&v.Fields, first, true)
			} else {
				out = append(out, argOcc{v, first, nested})
			}
		}
	}
	for gi, g := range gs {
		for ci := range g.Stack.Calls {
			walk(&g.Stack.Calls[ci].Args, gi == 0, false)
		}
	}
	return out
}

func c15Names(gs []*stack.Goroutine) (named int, bothGroups, nestedNamed bool, err error) {
	occ := allScalarArgs(gs)
	nameOf := map[uint64]string{}
	valOf := map[string]uint64{}
	count := map[uint64]int{}
	inFirst := map[uint64]bool{}
	isPtr := map[uint64]bool{}
	for _, o := range occ {
		a := o.arg
		if a.IsOffsetTooLarge {
			if a.Name != "" {
				return 0, false, false, fmt.Errorf("the placeholder '_' carries the name %q", a.Name)
			}
			continue
		}
		if !a.IsPtr && a.Name != "" {
			return 0, false, false, fmt.Errorf("value %#x is not classified as a pointer but carries the name %q", a.Value, a.Name)
		}
		if prev, ok := nameOf[a.Value]; ok && prev != a.Name {
			return 0, false, false, fmt.Errorf("value %#x is named %q in one place and %q in another", a.Value, prev, a.Name)
		}
		nameOf[a.Value] = a.Name
		if a.Name != "" {
			if v, ok := valOf[a.Name]; ok && v != a.Value {
				return 0, false, false, fmt.Errorf("name %q is given to both %#x and %#x", a.Name, v, a.Value)
			}
			valOf[a.Name] = a.Value
			if o.nested {
				nestedNamed = true
			}
		}
		count[a.Value]++
		if o.inFirst {
			inFirst[a.Value] = true
		}
		isPtr[a.Value] = a.IsPtr
	}
	for v, n := range count {
		if isPtr[v] && n >= 2 && nameOf[v] == "" {
			return 0, false, false, fmt.Errorf("pointer %#x occurs %d times but has no name", v, n)
		}
	}
	// names are exactly #1..#k
	type nv struct {
		n int
		v uint64
	}
	var names []nv
	for name, v := range valOf {
		if !strings.HasPrefix(name, "#") {
			return 0, false, false, fmt.Errorf("unexpected name %q", name)
		}
		k, e := strconv.Atoi(name[1:])
		if e != nil || k < 1 {
			return 0, false, false, fmt.Errorf("unexpected name %q", name)
		}
		names = append(names, nv{k, v})
	}
	sort.Slice(names, func(i, j int) bool { return names[i].n < names[j].n })
	for i, x := range names {
		if x.n != i+1 {
			return 0, false, false, fmt.Errorf("names are not dense: %d names but #%d is used (name #%d missing)", len(names), x.n, i+1)
		}
	}
	// ordering: ascending by address inside the group recurring in the first goroutine and
	// inside the rest; every name of the first group is smaller than every name of the rest.
	var g1, g2 []nv
	for _, x := range names {
		if inFirst[x.v] {
			g1 = append(g1, x)
		} else {
			g2 = append(g2, x)
		}
	}
	for _, g := range [][]nv{g1, g2} {
		for i := 1; i < len(g); i++ {
			if g[i-1].v > g[i].v {
				return 0, false, false, fmt.Errorf("names not in ascending address order: #%d=%#x before #%d=%#x", g[i-1].n, g[i-1].v, g[i].n, g[i].v)
			}
		}
	}
	if len(g1) > 0 && len(g2) > 0 && g1[len(g1)-1].n > g2[0].n {
		return 0, false, false, fmt.Errorf("pointer %#x of the first goroutine is #%d, after #%d=%#x which never appears in it", g1[len(g1)-1].v, g1[len(g1)-1].n, g2[0].n, g2[0].v)
	}
	return len(names), len(g1) > 0 && len(g2) > 0, nestedNamed, nil
}

func (c *c15Case) input() []byte {
	if c.Race != nil {
		return c.Race.Print()
	}
	if c.Tail == 1 {
		return append(c.D.Print(), "\ngoroutine 999999 [running]:\nmain.broken(0xzz)\n\t/a/z.go:1 +0x1\n"...)
	}
	return c.D.Print()
}

type failAfter struct {
	r    io.Reader
	done bool
}

func (f *failAfter) Read(p []byte) (int, error) {
	n, err := f.r.Read(p)
	if err == io.EOF {
		return n, errInjected
	}
	return n, err
}

func (c *c15Case) opts(naming bool) *stack.Opts {
	if c.Fix {
		return &stack.Opts{NameArguments: naming, GuessPaths: true, AnalyzeSources: true}
	}
	return &stack.Opts{NameArguments: naming}
}

func c15Scan(c *c15Case, naming bool) (*stack.Snapshot, error) {
	if c.Fix {
		x := bytes.ReplaceAll(c.D.Print(), []byte("@FIX@"), []byte(fixtureDir()))
		snap, _, err := stack.ScanSnapshot(bytes.NewReader(x), io.Discard, c.opts(naming))
		if snap == nil || (err != nil && err != io.EOF) {
			return nil, fmt.Errorf("HARNESS: fixture dump does not parse: %v", err)
		}
		return snap, nil
	}
	if c.Race != nil {
		snap, err := scanAloneOpts(c.Race.Print(), &stack.Opts{NameArguments: naming})
		if snap == nil {
			return nil, fmt.Errorf("race report does not parse: %v", err)
		}
		return snap, nil
	}
	if c.Tail == 0 {
		return parseDump(&c.D, &stack.Opts{NameArguments: naming})
	}
	var in io.Reader = bytes.NewReader(c.input())
	if c.Tail == 2 {
		in = &failAfter{r: in}
	}
	snap, _, err := stack.ScanSnapshot(in, io.Discard, &stack.Opts{NameArguments: naming})
	if snap == nil || err == nil || err == io.EOF {
		return nil, fmt.Errorf("HARNESS: expected a snapshot together with an error, got snapshot=%v err=%v", snap != nil, err)
	}
	if c.Tail == 1 {
		// the malformed goroutine itself is partial; what precedes it is what matters
		snap.Goroutines = snap.Goroutines[:len(snap.Goroutines)-1]
	}
	return snap, nil
}

func c15Oracle(c c15Case) error {
	on, err := c15Scan(&c, true)
	if err != nil {
		return err
	}
	off, err := c15Scan(&c, false)
	if err != nil {
		return err
	}
	if _, _, _, err := c15Names(on.Goroutines); err != nil {
		return err
	}
	// which values may carry a name at all is the documented classification
	if err := ptrConsistency(on.Goroutines); err != nil {
		return err
	}
	for _, o := range allScalarArgs(off.Goroutines) {
		if o.arg.Name != "" {
			return fmt.Errorf("naming is off but an argument is named %q", o.arg.Name)
		}
	}
	// CreatedBy never carries names either.
	for _, g := range on.Goroutines {
		for ci := range g.CreatedBy.Calls {
			for _, o := range allScalarArgs([]*stack.Goroutine{{Signature: stack.Signature{Stack: stack.Stack{Calls: []stack.Call{g.CreatedBy.Calls[ci]}}}}}) {
				_ = o
			}
		}
	}
	erased := cloneSnapshot(on)
	eraseNames(erased.Goroutines)
	if c.Fix {
		// the typed rendering embeds the pseudo-names ("string(#1, len=3)"): it is derived
		// from the names and compared no further here (C19 judges it)
		for _, gs := range [][]*stack.Goroutine{erased.Goroutines, off.Goroutines} {
			for _, g := range gs {
				for ci := range g.Stack.Calls {
					g.Stack.Calls[ci].Args.Processed = nil
				}
			}
		}
	}
	if !reflect.DeepEqual(erased.Goroutines, off.Goroutines) {
		return fmt.Errorf("naming changed something other than the names")
	}
	return nil
}

// genPointerDump: argument values drawn from a small pool of pointer-class and
// non-pointer-class values spread over goroutines, frames and nested fields.
func genPointerDump(t *rapid.T) DumpM {
	npool := rapid.IntRange(0, 40).Draw(t, "nptr")
	var ptrs []uint64
	for i := 0; i < npool; i++ {
		switch rapid.IntRange(0, 5).Draw(t, "ptrKind") {
		case 0:
			ptrs = append(ptrs, rapid.SampledFrom([]uint64{512*1024 + 1, 512*1024 + 2, 0x7ffffffffffffffe, 0x7ffffffffffffffd}).Draw(t, "boundaryPtr"))
		default:
			ptrs = append(ptrs, 0xc000000000+uint64(rapid.IntRange(0, 64).Draw(t, "ptrOff"))*0x10)
		}
	}
	nonptr := []uint64{0, 1, 7, 512*1024 - 1, 512 * 1024, 0x7fffffffffffffff, 0x8000000000000000, 0xffffffffffffffff}
	val := func() ArgM {
		var v uint64
		if len(ptrs) > 0 && rapid.IntRange(0, 3).Draw(t, "usePtr") != 0 {
			v = rapid.SampledFrom(ptrs).Draw(t, "pv")
		} else {
			v = rapid.SampledFrom(nonptr).Draw(t, "nv")
		}
		return ArgM{Val: v, Inacc: v%7 == 3}
	}
	var args func(depth int) ArgListM
	args = func(depth int) ArgListM {
		var a ArgListM
		k := rapid.IntRange(0, 4).Draw(t, "na")
		for i := 0; i < k; i++ {
			if depth < 3 && oneIn(t, 4, "agg") {
				sub := args(depth + 1)
				a.Items = append(a.Items, ArgM{Agg: &sub})
			} else if oneIn(t, 12, "tooLarge") {
				a.Items = append(a.Items, ArgM{TooLarge: true})
			} else {
				a.Items = append(a.Items, val())
			}
		}
		return a
	}
	d := DumpM{FileIndent: "\t"}
	ng := rapid.IntRange(1, 8).Draw(t, "ng")
	ids := genIDs(t, ng)
	for i := 0; i < ng; i++ {
		g := GM{ID: ids[i], State: "select", ElideAt: -1}
		nf := rapid.IntRange(1, 4).Draw(t, "nf")
		for j := 0; j < nf; j++ {
			g.Frames = append(g.Frames, FrameM{Pkg: "main", Name: "f", File: "/a/f.go", Line: 10 + j, PCOff: 1, Args: args(0)})
		}
		if oneIn(t, 3, "creator") {
			g.Creator = &CreatorM{Pkg: "main", Name: "spawn", File: "/a/s.go", Line: 5, PCOff: 3}
		}
		d.Gs = append(d.Gs, g)
	}
	if ng >= 2 && oneIn(t, 6, "repeatFirstID") {
		// two dumps logged back to back (or one pasted twice): a later goroutine carries the
		// id of the first one; "the first goroutine" is a position, not an id
		d.Gs[rapid.IntRange(1, ng-1).Draw(t, "repeatAt")].ID = d.Gs[0].ID
	}
	return d
}

func scanAloneOpts(b []byte, o *stack.Opts) (*stack.Snapshot, error) {
	snap, _, err := stack.ScanSnapshot(strings.NewReader(string(b)), discard{}, o)
	return snap, err
}

type discard struct{}

func (discard) Write(b []byte) (int, error) { return len(b), nil }

var c15 = Check[c15Case]{
	Prop: "C15", Name: "names",
	Gen: func(t *rapid.T) c15Case {
		switch rapid.IntRange(0, 9).Draw(t, "source") {
		case 0:
			r := genRace(t, RaceOpts{MaxOps: 3, MaxFrames: 4, Args: true})
			return c15Case{Race: &r}
		case 1, 2:
			return c15Case{D: genAggDump(t, 12)}
		}
		c := c15Case{D: genPointerDump(t)}
		if oneIn(t, 4, "errorTail") {
			c.Tail = rapid.IntRange(1, 2).Draw(t, "tail")
		} else if oneIn(t, 3, "sourceAnalysis") {
			// F1(a int, b string, c []byte, ...) of the fixture: the words after the first are a
			// string pointer and length, a slice pointer, length and capacity
			c.Fix = true
			for gi := range c.D.Gs {
				for fi := range c.D.Gs[gi].Frames {
					if rapid.Bool().Draw(t, "fixFrame") {
						f := &c.D.Gs[gi].Frames[fi]
						f.Pkg, f.Name, f.File, f.Line = "main", "F1", "@FIX@/main.go", 6
						for len(f.Args.Items) < 6 {
							f.Args.Items = append(f.Args.Items, ArgM{Val: rapid.SampledFrom([]uint64{0x100000, 0x100000, 0xc000100000, 3, 0x200000}).Draw(t, "fixWord")})
						}
					}
				}
			}
		}
		return c
	},
	Oracle: c15Oracle,
	Obs: func(c c15Case) Obs {
		on, err := c15Scan(&c, true)
		nt := false
		var cl []string
		if err == nil {
			named, both, nested, _ := c15Names(on.Goroutines)
			nt = named >= 3 && both && nested
			if both {
				cl = append(cl, "names_in_both_groups")
			}
			if nested {
				cl = append(cl, "named_nested_field")
			}
			if named >= 10 {
				cl = append(cl, "ge_10_names")
			}
			if named == 0 {
				cl = append(cl, "no_names")
			}
		}
		if c.Race != nil {
			cl = append(cl, "race")
		}
		if c.Tail != 0 {
			cl = append(cl, "snapshot_returned_with_error")
		}
		if c.Fix {
			cl = append(cl, "source_analysis_on")
		}
		return Obs{Nontrivial: nt, Digest: digestBytes(c.input(), []byte{byte(c.Tail), b2b(c.Fix)}), Classes: cl, Sample: quoteShort(truncBytes(c.input(), 900))}
	},
}

func init() { register(c15.key(), c15.Oracle) }

func TestC15(t *testing.T) {
	c := c15
	c.Checks = n(4000, 100000)
	c.Run(t)
}
