package props

// C19/twin: equally named source files in different packages. A module with 2..4 packages
// p0..pk, each with one file park.go whose function Park sits on the same lines in every
// package; main calls p0.Park, which calls p1.Park, ... and the last one panics. The real
// traceback therefore holds consecutive frames with the same base file name and the same line
// number whose declarations differ in arity and types. Each frame must be rendered from its
// own declaration (seeded change C20v: a lookup memo keyed by base name and line).

import (
	"bytes"
	"fmt"
	"io"
	"os"
	"os/exec"
	"path/filepath"
	"strings"

	"github.com/maruel/panicparse/v2/stack"
	"pgregory.net/rapid"
)

type c19Twin struct {
	Pkgs [][]Param // parameters of pI.Park (scalars only: the packages share no variables)
	// SameLine false: the deeper packages' Park lies one line lower (control: the frames then
	// differ in line as well)
	SameLine bool
}

func (p *c19Twin) sources() map[string]string {
	m := map[string]string{}
	call := func(i int) string {
		var args []string
		for _, pr := range p.Pkgs[i] {
			args = append(args, pr.Type+"("+literal(pr)+")")
		}
		return fmt.Sprintf("p%d.Park(%s)", i, strings.Join(args, ", "))
	}
	usesMath := func(i int) bool {
		for _, pr := range p.Pkgs[i] {
			if strings.HasPrefix(pr.Type, "float") {
				return true
			}
		}
		return false
	}
	imports := func(next int) string {
		// always four lines, so that Park has the same line in every package
		l := []string{"import (", "\t_ \"math\"", "\t_ \"os\"", ")"}
		if next >= 0 {
			l[2] = fmt.Sprintf("\t\"example.com/twin/p%d\"", next)
			if usesMath(next) {
				l[1] = "\t\"math\""
			}
		}
		return strings.Join(l, "\n") + "\n"
	}
	for i := range p.Pkgs {
		var b strings.Builder
		next := -1
		if i+1 < len(p.Pkgs) {
			next = i + 1
		}
		fmt.Fprintf(&b, "package p%d\n\n%s\n", i, imports(next))
		if !p.SameLine {
			b.WriteString(strings.Repeat("\n", i))
		}
		b.WriteString("//go:noinline\nfunc Park(")
		for k, pr := range p.Pkgs[i] {
			if k > 0 {
				b.WriteString(", ")
			}
			fmt.Fprintf(&b, "a%d %s", k, pr.Type)
		}
		b.WriteString(") {\n")
		if next >= 0 {
			b.WriteString("\t" + call(next) + "\n")
		} else {
			b.WriteString("\tpanic(\"boom\")\n")
		}
		b.WriteString("}\n")
		m[fmt.Sprintf("p%d/park.go", i)] = b.String()
	}
	m["main.go"] = "package main\n\n" + imports(0) + "\nfunc main() {\n\t" + call(0) + "\n}\n"
	return m
}

func (p *c19Twin) source() string {
	var b strings.Builder
	m := p.sources()
	for i := range p.Pkgs {
		k := fmt.Sprintf("p%d/park.go", i)
		b.WriteString("// " + k + "\n" + m[k] + "\n")
	}
	return b.String() + "// main.go\n" + m["main.go"]
}

func c19TwinOracle(p c19Twin) error {
	dir, done := scratchDir("c19t")
	defer done()
	if err := os.WriteFile(filepath.Join(dir, "go.mod"), []byte("module example.com/twin\n\ngo 1.21\n"), 0o644); err != nil {
		return fmt.Errorf("HARNESS: %v", err)
	}
	for name, src := range p.sources() {
		if err := os.MkdirAll(filepath.Dir(filepath.Join(dir, name)), 0o755); err != nil {
			return fmt.Errorf("HARNESS: %v", err)
		}
		if err := os.WriteFile(filepath.Join(dir, name), []byte(src), 0o644); err != nil {
			return fmt.Errorf("HARNESS: %v", err)
		}
	}
	cmd := exec.Command(goTool(), "build", "-gcflags", "all=-N -l", "-o", "prog", ".")
	cmd.Dir = dir
	cmd.Env = append(os.Environ(), "GOFLAGS=-mod=mod", "GOPROXY=off", "GOSUMDB=off", "GOTOOLCHAIN=local", "CGO_ENABLED=0")
	if out, err := cmd.CombinedOutput(); err != nil {
		return fmt.Errorf("HARNESS: generated program does not build: %v\n%s\n%s", err, out, p.source())
	}
	run := exec.Command(filepath.Join(dir, "prog"))
	run.Env = append(os.Environ(), "GOTRACEBACK=all")
	var se bytes.Buffer
	run.Stderr = &se
	_ = run.Run()
	if !bytes.Contains(se.Bytes(), []byte("panic: boom")) {
		return fmt.Errorf("HARNESS: the program did not crash as planned: %q", quoteShort(se.Bytes()))
	}
	st := statsFor("C19")
	for _, naming := range []bool{false, true} {
		with, _, e1 := stack.ScanSnapshot(bytes.NewReader(se.Bytes()), io.Discard, c19OptsNaming(true, naming))
		without, _, e2 := stack.ScanSnapshot(bytes.NewReader(se.Bytes()), io.Discard, c19OptsNaming(false, naming))
		if with == nil || without == nil {
			return fmt.Errorf("real traceback does not parse (%v / %v): %q", e1, e2, quoteShort(se.Bytes()))
		}
		if err := harmless(with, without); err != nil {
			return err
		}
		lines := map[int]bool{}
		for i, params := range p.Pkgs {
			name := "Park"
			var call *stack.Call
			for _, g := range with.Goroutines {
				for k := range g.Stack.Calls {
					c := &g.Stack.Calls[k]
					if c.Func.Name == name && c.Func.ImportPath == fmt.Sprintf("example.com/twin/p%d", i) {
						call = c
					}
				}
			}
			if call == nil {
				return fmt.Errorf("frame p%d.Park not found in the traceback: %q", i, quoteShort(se.Bytes()))
			}
			lines[call.Line] = true
			printed := flatCount(&call.Args)
			for k, pr := range params {
				if k >= printed {
					break
				}
				if k >= len(call.Args.Processed) {
					return fmt.Errorf("p%d.Park: parameter %d (%s) was printed by the runtime but not rendered: %q\nraw: %s", i, k, pr.Type, call.Args.Processed, call.Args.String())
				}
				if err := checkParam(pr, nil, nil, call.Args.Processed[k], naming); err != nil {
					var sig []string
					for _, q := range params {
						sig = append(sig, q.Type)
					}
					return fmt.Errorf("p%d.Park(%s) in %s:%d, next to equally named files of other packages (naming=%v): parameter %d: %v\nrendered: %q", i, strings.Join(sig, ", "), call.RemoteSrcPath, call.Line, naming, k, err, call.Args.Processed)
				}
			}
			if len(call.Args.Processed) > len(params) {
				return fmt.Errorf("p%d.Park has %d parameters but %d are rendered: %q", i, len(params), len(call.Args.Processed), call.Args.Processed)
			}
			if p.SameLine {
				st.count(1, 1)
			} else {
				st.count(1, 0)
			}
		}
		if p.SameLine && len(lines) != 1 {
			return fmt.Errorf("HARNESS: the Park frames were meant to share one line number, got %v", lines)
		}
	}
	st.class("twin_file_programs", 1)
	if p.SameLine {
		st.class("twin_frames_same_base_name_and_line", int64(len(p.Pkgs)))
	}
	return nil
}

var c19TwinCheck = Check[c19Twin]{
	Prop: "C19", Name: "twin",
	Gen: func(t *rapid.T) c19Twin {
		var p c19Twin
		np := rapid.IntRange(2, 4).Draw(t, "packages")
		for i := 0; i < np; i++ {
			var ps []Param
			k := rapid.IntRange(0, 5).Draw(t, "nparams")
			for j := 0; j < k; j++ {
				typ := rapid.SampledFrom(scalarTypes).Draw(t, "scalarType")
				ps = append(ps, Param{Type: typ, Bits: genScalarBits(t, typ), Var: -1})
			}
			p.Pkgs = append(p.Pkgs, ps)
		}
		p.SameLine = !oneIn(t, 5, "differentLines")
		return p
	},
	Oracle: c19TwinOracle,
	Obs: func(p c19Twin) Obs {
		return Obs{Nontrivial: false, Classes: []string{"twin"}, Sample: p.source()}
	},
}

func init() { register(c19TwinCheck.key(), c19TwinCheck.Oracle) }
