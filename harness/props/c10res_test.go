package props

// C10/resolvable: cuts of a dump whose every source file exists locally, scanned with path
// guessing on. In a layout without nested or overlapping roots the root that explains a file
// is found from that file alone, so a goroutine whose text lies entirely before the cut must
// come out exactly as in the uncut scan - local path, relative path, import path and location
// included.

import (
	"fmt"
	"io"
	"reflect"

	"github.com/maruel/panicparse/v2/stack"
	"pgregory.net/rapid"
)

func allPresent(l *Layout) {
	for i := range l.Goroot {
		l.Goroot[i].Present = true
	}
	for gi := range l.Gopaths {
		for i := range l.Gopaths[gi].Src {
			l.Gopaths[gi].Src[i].Present = true
		}
		for i := range l.Gopaths[gi].Mod {
			l.Gopaths[gi].Mod[i].Present = true
		}
	}
	for mi := range l.Modules {
		for i := range l.Modules[mi].Files {
			l.Modules[mi].Files[i].Present = true
		}
	}
	l.Extra = nil
	l.TestMain = false
}

func c10ResOracle(c c18Case) error {
	base, done := scratchDir("c10r")
	defer done()
	if err := c.L.materialise(base); err != nil {
		return fmt.Errorf("HARNESS: %v", err)
	}
	truths := c.L.truths(base)
	var refs []string
	for _, t := range truths {
		refs = append(refs, t.Remote)
	}
	var order []int
	var used []fileTruth
	for _, k := range c.Order {
		if k < len(truths) {
			order = append(order, k)
			used = append(used, truths[k])
		}
	}
	if len(order) == 0 {
		return nil
	}
	st := statsFor("C10")
	if c.L.ambiguous(base, used) {
		st.class("resolvable_layout_ambiguous_skipped", 1)
		return nil
	}
	d := dumpFor(refs, order)
	x := d.Print()
	spans := d.Spans()
	opts := func() *stack.Opts {
		return &stack.Opts{GuessPaths: true, LocalGOROOT: c.L.localGoroot(base), LocalGOPATHs: c.L.localGopaths(base)}
	}
	uncut, _, err := stack.ScanSnapshot(&cutReader{data: x, c: len(x), err: io.EOF}, io.Discard, opts())
	if uncut == nil || len(uncut.Goroutines) != len(d.Gs) {
		return fmt.Errorf("HARNESS: the uncut dump does not parse (%v)", err)
	}
	resolved := 0
	for _, g := range uncut.Goroutines {
		for i := range g.Stack.Calls {
			if g.Stack.Calls[i].LocalSrcPath != "" {
				resolved++
			}
		}
	}
	for cut := 0; cut <= len(x); cut++ {
		mode := cut % 4
		r := &cutReader{data: x, c: cut, err: io.EOF, withData: mode&1 == 1}
		if mode >= 2 {
			r.err = errInjected
		}
		var snap *stack.Snapshot
		if e := guard(func() error {
			snap, _, _ = stack.ScanSnapshot(r, io.Discard, opts())
			return nil
		}); e != nil {
			return fmt.Errorf("cut at %d of %d (%s): %v", cut, len(x), modeNames[mode], e)
		}
		whole := 0
		for gi := range spans {
			if spans[gi][1] <= cut {
				whole++
			}
		}
		if whole == 0 {
			continue
		}
		if snap == nil || len(snap.Goroutines) < whole {
			return fmt.Errorf("cut at %d of %d (%s): %d goroutines lie entirely before the cut, the snapshot has fewer", cut, len(x), modeNames[mode], whole)
		}
		for gi := 0; gi < whole; gi++ {
			if !reflect.DeepEqual(snap.Goroutines[gi], uncut.Goroutines[gi]) {
				a, b := snap.Goroutines[gi], uncut.Goroutines[gi]
				detail := ""
				for ci := range b.Stack.Calls {
					if ci < len(a.Stack.Calls) && !reflect.DeepEqual(a.Stack.Calls[ci], b.Stack.Calls[ci]) {
						detail = fmt.Sprintf("frame %d %s: local %q rel %q import %q location %s; uncut: local %q rel %q import %q location %s", ci, b.Stack.Calls[ci].RemoteSrcPath,
							a.Stack.Calls[ci].LocalSrcPath, a.Stack.Calls[ci].RelSrcPath, a.Stack.Calls[ci].ImportPath, a.Stack.Calls[ci].Location,
							b.Stack.Calls[ci].LocalSrcPath, b.Stack.Calls[ci].RelSrcPath, b.Stack.Calls[ci].ImportPath, b.Stack.Calls[ci].Location)
						break
					}
				}
				return fmt.Errorf("cut at %d of %d (%s), path guessing on, every file present locally: goroutine %d lies entirely before the cut but differs from the uncut scan: %s", cut, len(x), modeNames[mode], b.ID, detail)
			}
		}
		if resolved > 0 {
			st.count(1, 1)
		} else {
			st.count(1, 0)
		}
	}
	st.class("resolvable_layout_dumps", 1)
	return nil
}

var c10Res = Check[c18Case]{
	Prop: "C10", Name: "resolvable",
	Gen: func(t *rapid.T) c18Case {
		c := c18.Gen(t)
		allPresent(&c.L)
		return c
	},
	Oracle: c10ResOracle,
	Obs: func(c c18Case) Obs {
		return Obs{Nontrivial: false, Classes: []string{"resolvable"}, Sample: c}
	},
}

func init() { register(c10Res.key(), c10Res.Oracle) }
