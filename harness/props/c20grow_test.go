package props

// C20/grow: the handler's answers do not depend on what earlier requests saw. The goroutine
// population of the process is driven through a generated sequence of sizes (all of them
// giving dumps well below the documented 1 MiB minimum budget); after every change a few
// GETs with generated valid parameters - in particular explicit small maxmem values, which
// the documentation raises to 1 MiB - must each return a complete page accounting for every
// parked goroutine.

import (
	"fmt"
	"io"
	"net/http"
	"net/http/httptest"
	"runtime"
	"time"

	"github.com/maruel/panicparse/v2/stack/webstack"
	"pgregory.net/rapid"
)

type c20Phase struct {
	Population int      // parked goroutines besides the registered workload
	Reqs       []c20Req // valid GETs issued while the population is that large
	// Overlap: the population changes while an earlier GET is still being answered, so the
	// first GET of the phase follows that one's dump within a few milliseconds
	Overlap bool `json:",omitempty"`
}

type c20GrowCase struct{ Phases []c20Phase }

func c20GrowOracle(c c20GrowCase) error {
	w := newWorkload(1)
	defer w.shutdown()
	entered := make(chan struct{}, 16)
	srv := httptest.NewServer(http.HandlerFunc(func(rw http.ResponseWriter, req *http.Request) {
		if req.Header.Get("X-Verif-Overlap") != "" {
			entered <- struct{}{}
		}
		webstack.SnapshotHandler(rw, req)
	}))
	defer closeServer(srv)
	client := &http.Client{}
	st := statsFor("C20")
	type bgResult struct {
		code  int
		ctype string
		body  []byte
		err   error
	}
	type parked struct{ ch chan int }
	var pop []parked
	defer func() {
		for _, p := range pop {
			close(p.ch)
		}
	}()
	prev := 0
	for pi, ph := range c.Phases {
		var bg chan bgResult
		if ph.Overlap {
			bg = make(chan bgResult, 1)
			go func() {
				req, _ := http.NewRequest("GET", srv.URL+"/debug?augment=0", nil)
				req.Header.Set("X-Verif-Overlap", "1")
				resp, err := client.Do(req)
				if err != nil {
					bg <- bgResult{err: err}
					return
				}
				body, rerr := io.ReadAll(resp.Body)
				resp.Body.Close()
				bg <- bgResult{resp.StatusCode, resp.Header.Get("Content-Type"), body, rerr}
			}()
			select {
			case <-entered:
			case <-time.After(60 * time.Second):
				return fmt.Errorf("HARNESS: the overlapping request did not reach the handler in 60s")
			}
			time.Sleep(2 * time.Millisecond) // lets the handler take its dump; only shapes the schedule
		}
		for len(pop) < ph.Population {
			p := parked{ch: make(chan int)}
			ready := make(chan int, 1)
			go parkRecv(p.ch, ready)
			<-ready
			pop = append(pop, p)
		}
		for len(pop) > ph.Population {
			close(pop[len(pop)-1].ch)
			pop = pop[:len(pop)-1]
		}
		for ri := range ph.Reqs {
			r := &ph.Reqs[ri]
			resp, err := client.Get(srv.URL + "/debug?" + r.query())
			if err != nil {
				return fmt.Errorf("phase %d request %d: %v", pi, ri, err)
			}
			body, rerr := io.ReadAll(resp.Body)
			resp.Body.Close()
			if rerr != nil {
				return fmt.Errorf("phase %d request %d: reading the response: %v", pi, ri, rerr)
			}
			// released goroutines may still be on their way out
			upper := max(prev, ph.Population) + len(w.stable) + runtime.NumGoroutine() + 64
			if err := c20CheckResponse(r, resp.StatusCode, resp.Header.Get("Content-Type"), body, len(w.stable)+ph.Population, upper); err != nil {
				return fmt.Errorf("population %d (before: %d), request %d: %v", ph.Population, prev, ri, err)
			}
			st.count(1, 1)
			if ph.Population >= 2*prev+50 && r.Maxmem != nil && *r.Maxmem != "" {
				st.class("small_budget_after_growth", 1)
			}
		}
		if bg != nil {
			select {
			case b := <-bg:
				if b.err != nil {
					return fmt.Errorf("phase %d: request overlapping the population change: %v", pi, b.err)
				}
				upper := max(prev, ph.Population) + len(w.stable) + runtime.NumGoroutine() + 64
				if err := c20CheckResponse(&c20Req{Method: "GET", Augment: sp("0")}, b.code, b.ctype, b.body, len(w.stable)+min(prev, ph.Population), upper); err != nil {
					return fmt.Errorf("request overlapping the change of population %d -> %d: %v", prev, ph.Population, err)
				}
				st.count(1, 1)
				st.class("request_overlapping_population_change", 1)
			case <-time.After(300 * time.Second):
				return fmt.Errorf("request overlapping the change of population %d -> %d: no answer in 300s", prev, ph.Population)
			}
		}
		st.class("population_phases", 1)
		prev = ph.Population
	}
	return nil
}

var c20Grow = Check[c20GrowCase]{
	Prop: "C20", Name: "grow",
	Gen: func(t *rapid.T) c20GrowCase {
		var c c20GrowCase
		for i, k := 0, rapid.IntRange(2, 5).Draw(t, "phases"); i < k; i++ {
			ph := c20Phase{Population: rapid.SampledFrom([]int{0, 5, 60, 400, 900, 1500}).Draw(t, "population"), Overlap: i > 0 && rapid.Bool().Draw(t, "overlap")}
			for j, m := 0, rapid.IntRange(1, 3).Draw(t, "reqs"); j < m; j++ {
				r := c20Req{Method: "GET"}
				if rapid.Bool().Draw(t, "withSimilarity") {
					r.Similarity = sp(rapid.SampledFrom([]string{"exactflags", "exactlines", "anypointer", "anyvalue"}).Draw(t, "similarity"))
				}
				r.Augment = sp(rapid.SampledFrom([]string{"0", "0", "1"}).Draw(t, "augment"))
				if !oneIn(t, 4, "defaultBudget") {
					r.Maxmem = sp(rapid.SampledFrom([]string{"1", "4096", "65536", "300000", "1048576", "2000000"}).Draw(t, "maxmem"))
				}
				ph.Reqs = append(ph.Reqs, r)
			}
			c.Phases = append(c.Phases, ph)
		}
		return c
	},
	Oracle: c20GrowOracle,
	Obs: func(c c20GrowCase) Obs {
		return Obs{Nontrivial: false, Classes: []string{"grow_sessions"}, Sample: c}
	},
}

func init() { register(c20Grow.key(), c20Grow.Oracle) }
