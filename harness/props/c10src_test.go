package props

// C10/sources: cuts of a dump whose sources are on disk, scanned with path guessing and source
// analysis on. The traceback of a generated, built and crashed program (C19's generator) is
// followed by a second goroutine with the same frames; the stream is cut at every offset
// inside that second goroutine. The first goroutine lies entirely before the cut and must come
// out exactly as in the uncut scan - typed arguments included.

import (
	"bytes"
	"fmt"
	"io"
	"reflect"

	"github.com/maruel/panicparse/v2/stack"
	"pgregory.net/rapid"
)

func c10SrcOracle(p c19Prog) error {
	dir, done := scratchDir("c10s")
	defer done()
	crashes, err := buildAndCrash(&p, dir)
	if err != nil {
		return err
	}
	st := statsFor("C10")
	for ci, cr := range crashes {
		i := bytes.Index(cr.stderr, []byte("goroutine 1 ["))
		if i < 0 {
			return fmt.Errorf("HARNESS: no goroutine 1 in the traceback of chain %d", ci)
		}
		g1 := bytes.TrimRight(cr.stderr[i:], "\n")
		if j := bytes.Index(g1, []byte("\n\n")); j >= 0 {
			g1 = g1[:j] // the first goroutine only (exit status lines etc. follow a blank line)
		}
		nl := bytes.IndexByte(g1, '\n')
		var x []byte
		x = append(x, cr.stderr[:i]...)
		x = append(x, g1...)
		x = append(x, "\n\n"...)
		e1 := len(x) // goroutine 1 and its blank line end here
		x = append(x, "goroutine 2 [runnable]:"...)
		x = append(x, g1[nl:]...)
		x = append(x, '\n')
		// naming off: pseudo-names depend on how often a pointer occurs in the whole snapshot, and
		// the statement sets them aside
		opts := func() *stack.Opts { return c19OptsNaming(true, false) }
		uncut, _, _ := stack.ScanSnapshot(bytes.NewReader(x), io.Discard, opts())
		if uncut == nil || len(uncut.Goroutines) != 2 {
			return fmt.Errorf("HARNESS: the doubled traceback of chain %d does not give two goroutines:\n%s", ci, x)
		}
		if augmentedFrames(uncut) == 0 {
			continue
		}
		step := 1
		if n := len(x) - e1; n > 600 {
			step = n/600 + 1
		}
		for cut := e1; cut <= len(x); cut += step {
			mode := cut % 4
			r := &cutReader{data: x, c: cut, err: io.EOF, withData: mode&1 == 1}
			if mode >= 2 {
				r.err = errInjected
			}
			var snap *stack.Snapshot
			if e := guard(func() error {
				snap, _, _ = stack.ScanSnapshot(r, io.Discard, opts())
				return nil
			}); e != nil {
				return fmt.Errorf("chain %d cut at %d of %d (%s): %v", ci, cut, len(x), modeNames[mode], e)
			}
			if snap == nil || len(snap.Goroutines) == 0 {
				return fmt.Errorf("chain %d cut at %d of %d (%s): goroutine 1 lies entirely before the cut but no goroutine is returned", ci, cut, len(x), modeNames[mode])
			}
			if !reflect.DeepEqual(snap.Goroutines[0], uncut.Goroutines[0]) {
				d := ""
				a, b := snap.Goroutines[0], uncut.Goroutines[0]
				for k := range b.Stack.Calls {
					if k < len(a.Stack.Calls) && !reflect.DeepEqual(a.Stack.Calls[k], b.Stack.Calls[k]) {
						d = fmt.Sprintf("frame %d %s: arguments %q local %q; uncut: %q local %q", k, b.Stack.Calls[k].Func.Name, a.Stack.Calls[k].Args.Processed, a.Stack.Calls[k].LocalSrcPath, b.Stack.Calls[k].Args.Processed, b.Stack.Calls[k].LocalSrcPath)
						break
					}
				}
				return fmt.Errorf("chain %d cut at %d of %d (%s), sources on disk, path guessing and source analysis on: goroutine 1 lies entirely before the cut but differs from the uncut scan: %s", ci, cut, len(x), modeNames[mode], d)
			}
			st.count(1, 1)
		}
		st.class("cut_tracebacks_with_sources_on_disk", 1)
	}
	return nil
}

var c10Src = Check[c19Prog]{
	Prop: "C10", Name: "sources",
	Gen:    func(t *rapid.T) c19Prog { return genProg(t, n(3, 5)) },
	Oracle: c10SrcOracle,
	Obs: func(p c19Prog) Obs {
		return Obs{Nontrivial: false, Classes: []string{"source_programs"}, Sample: p.source()}
	},
}

func init() { register(c10Src.key(), c10Src.Oracle) }
