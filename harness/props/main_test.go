package props

import (
	"encoding/json"
	"fmt"
	"io"
	"log"
	"os"
	"testing"
)

func TestMain(m *testing.M) {
	log.SetOutput(io.Discard) // the library logs "problematic URL" notes for hostile paths
	code := m.Run()
	writeAllStats()
	os.Exit(code)
}

// TestReplay re-runs one saved case (VERIF_REPLAY_FILE) through its oracle, bypassing the
// property library. It fails iff the case still violates the property.
func TestReplay(t *testing.T) {
	p := os.Getenv("VERIF_REPLAY_FILE")
	if p == "" {
		t.Skip("VERIF_REPLAY_FILE not set")
	}
	b, err := os.ReadFile(p)
	if err != nil {
		t.Fatalf("HARNESS: %v", err)
	}
	var rf replayFile
	if err := json.Unmarshal(b, &rf); err != nil {
		t.Fatalf("HARNESS: %v", err)
	}
	f := replayers[rf.Check]
	if f == nil {
		t.Fatalf("HARNESS: no replayer registered for %q", rf.Check)
	}
	if err := f(rf.Case); err != nil {
		inconclusiveIfHarness(rf.Check, err)
		fmt.Printf("REPLAY-FAIL property=%s check=%s\n", rf.Property, rf.Check)
		t.Fatalf("still violated: %v", err)
	}
	fmt.Printf("REPLAY-PASS property=%s check=%s\n", rf.Property, rf.Check)
}
