package props

// rapid generators for the traceback model. All randomness comes from rapid so that every
// case shrinks and replays.

import (
	"strings"

	"pgregory.net/rapid"
)

// Status texts of runtime.gStatusStrings and runtime.waitReasonStrings (go1.23.5 ∪ go1.26.8).
var runtimeStates = []string{
	"idle", "runnable", "running", "syscall", "waiting", "dead", "copystack", "preempted", "leaked", "???",
	"GC assist marking", "IO wait", "chan receive (nil chan)", "chan send (nil chan)", "dumping heap",
	"garbage collection", "garbage collection scan", "panicwait", "select", "select (no cases)",
	"GC assist wait", "GC sweep wait", "GC scavenge wait", "chan receive", "chan send", "finalizer wait",
	"force gc (idle)", "GOMAXPROCS updater (idle)", "semacquire", "sleep", "sync.Cond.Wait", "sync.Mutex.Lock",
	"sync.RWMutex.RLock", "sync.RWMutex.Lock", "sync.WaitGroup.Wait", "trace reader (blocked)",
	"wait for GC cycle", "GC worker (idle)", "GC worker (active)", "debug call", "GC mark termination",
	"stopping the world", "flushing proc caches", "trace goroutine status", "trace proc status",
	"page trace flush", "coroutine", "GC weak to strong wait", "synctest.Run", "synctest.Wait",
	"chan receive (durable)", "chan send (durable)", "select (durable)", "sync.WaitGroup.Wait (durable)",
	"cleanup wait", "unknown wait reason", "semarelease", "timer goroutine (idle)", "Concurrent GC wait",
}

var stateDecor = []string{"", "", "", "", " (scan)", " (leaked)", " (durable)"}

var pkgPool = []string{
	"main", "main", "main", "runtime", "sync", "net/http", "internal/poll", "os/signal", "testing",
	"github.com/foo/bar", "github.com/maruel/panicparse/v2/stack", "gopkg.in/yaml.v2", "example.com",
	"example.com/a.b/c.d", "golang.org/x/sys/unix", "héllo/wörld", "k8s.io/client-go/tools/cache",
	"a b/c d", "weird/pct%41", `q"uote/p`, "dash-ed/under_score", "github.com/x/c++lib", "v.io/x/ref.v1",
	"gopkg.in/a.v1/b.v2", "x/~tilde", "example.com/app/internal/main", "x/main", "main/sub", "maintenance", "vendor/golang.org/x/net/http2", "github.com/foo/bar/vendor/golang.org/x/net/http2", "a/vendor/b/c",
}

var namePool = []string{
	"main", "foo", "Bar", "(*T).M", "T.M", "f.func1", "f.func1.2", "glob..func1", "init.0", "init", "f.gowrap1",
	"f-range1", "(*T).M-fm", "F[...]", "(*T[...]).M", "G[...].func1", "Ünïcode", "(*Ω).µ", "_Cfunc_x", "_cgoexp_abc_x",
	"(*Server).Serve", "goexit", "gopark", "(*conn).serve.func1", "panicnil", "x_y.z", "tRunner",
}

var cNamePool = []string{"panic", "foo", "crosscall2", "_cgo_sys_thread_start", "abort"}

var filePool = []string{
	"/usr/lib/go/src/runtime/proc.go", "/usr/lib/go/src/net/http/server.go", "/home/user/go/src/github.com/foo/bar/baz.go",
	"/home/user/src/app/main.go", "C:/Users/x/go/src/a/b.go", "/path with space/x y.go", "/a/b/asm_amd64.s", "/a/cgo/gcc_linux.c",
	"/dir.go:12/f.go", "/ünï/cödé.go", "/tmp/go-build123/b001/_test/_testmain.go", "/a.go", "/root/go/pkg/mod/github.com/x/y@v1.2.3/z.go",
	"/w/a.b.c/d.e.go", "D:/a b/c.go", "/x/y.go.go",
	// same directory and file name below different parents (equal DirSrc, different paths)
	"/other/checkout/app/main.go", "/root/go/pkg/mod/github.com/x/y@v1.3.0/z.go", "/usr/local/go/src/runtime/proc.go",
}

// Interesting argument values: small, around the pointer classification floor and ceiling,
// heap-like addresses.
var valPoolBase = []uint64{
	0, 1, 2, 9, 10, 0xff, 0x1234, 512*1024 - 1, 512 * 1024, 512*1024 + 1, 0x100000, 0xc000012340, 0xc000012348,
	0xc0000a2000, 0x7f1234567890, 0x7ffffffffffffffe, 0x7fffffffffffffff, 0x8000000000000000, 0xffffffffffffffff, 0xdeadbeef,
}

type pools struct {
	freeInacc bool // the '?' flag is drawn independently of the value (C01 only)
	vals      []uint64
	stacks    [][]FrameM
	creators  []*CreatorM
	states    []string
}

func genVal(t *rapid.T, p *pools) uint64 {
	if len(p.vals) > 0 && rapid.IntRange(0, 9).Draw(t, "valFromPool") < 8 {
		return rapid.SampledFrom(p.vals).Draw(t, "val")
	}
	switch rapid.IntRange(0, 3).Draw(t, "valClass") {
	case 0:
		return rapid.SampledFrom(valPoolBase).Draw(t, "val")
	case 1:
		return uint64(rapid.IntRange(0, 20).Draw(t, "val"))
	case 2:
		return 0xc000000000 + uint64(rapid.IntRange(0, 1<<20).Draw(t, "val"))*8
	default:
		return rapid.Uint64().Draw(t, "val")
	}
}

func genArgList(t *rapid.T, p *pools, depth int, budget *int) ArgListM {
	var a ArgListM
	n := rapid.IntRange(0, 4).Draw(t, "nargs")
	if depth == 0 && oneIn(t, 10, "manyArgs") {
		n = rapid.IntRange(5, 12).Draw(t, "nargs")
	}
	if depth == 0 && oneIn(t, 25, "deepestNesting") {
		// the runtime's nesting limit: five levels of braces
		inner := ArgListM{Items: []ArgM{{Val: genVal(t, p)}}, Dots: rapid.Bool().Draw(t, "deepDots")}
		for d := 0; d < 4; d++ {
			cp := inner
			inner = ArgListM{Items: []ArgM{{Agg: &cp}, {Val: uint64(d)}}}
		}
		a.Items = append(a.Items, ArgM{Agg: &inner})
	}
	for i := 0; i < n && *budget > 0; i++ {
		*budget--
		k := rapid.IntRange(0, 19).Draw(t, "argKind")
		switch {
		case k < 3 && depth < 5:
			sub := genArgList(t, p, depth+1, budget)
			a.Items = append(a.Items, ArgM{Agg: &sub})
		case k == 3:
			a.Items = append(a.Items, ArgM{TooLarge: true})
		default:
			v := ArgM{Val: genVal(t, p)}
			// Within one dump the '?' flag is a function of the value (see DESIGN C05), except
			// where the check is about the parser alone.
			v.Inacc = v.Val%7 == 3
			if p.freeInacc {
				v.Inacc = oneIn(t, 3, "inaccurate")
			}
			a.Items = append(a.Items, v)
		}
	}
	if oneIn(t, 8, "dots") {
		a.Dots = true
	}
	return a
}

func genPkg(t *rapid.T) string {
	if rapid.IntRange(0, 5).Draw(t, "pkgRandom") != 0 {
		return rapid.SampledFrom(pkgPool).Draw(t, "pkg")
	}
	// Random import path: 1..4 elements over a hostile alphabet.
	alpha := []string{"a", "b", "x", "go", ".", "-", "_", "é", " ", "%", "\"", "+", "~", "1", "v2", "Z"}
	n := rapid.IntRange(1, 4).Draw(t, "pkgElems")
	var elems []string
	for i := 0; i < n; i++ {
		m := rapid.IntRange(1, 4).Draw(t, "elemLen")
		var sb strings.Builder
		for j := 0; j < m; j++ {
			sb.WriteString(rapid.SampledFrom(alpha).Draw(t, "ch"))
		}
		e := sb.String()
		elems = append(elems, e)
	}
	return strings.Join(elems, "/")
}

func genName(t *rapid.T) string {
	return rapid.SampledFrom(namePool).Draw(t, "name")
}

func genFile(t *rapid.T) (string, int) {
	switch rapid.IntRange(0, 24).Draw(t, "fileKind") {
	case 0:
		return "??", 0
	case 1:
		return "<autogenerated>", 1
	}
	line := rapid.IntRange(1, 99999).Draw(t, "line")
	if oneIn(t, 20, "hugeLine") {
		line = rapid.SampledFrom([]int{999999999, 1000000000, 2147483647, 2147483648, 4294967296, 999999999999999999}).Draw(t, "hugeLineValue")
	}
	return rapid.SampledFrom(filePool).Draw(t, "file"), line
}

func genPCOff(t *rapid.T) int64 {
	if oneIn(t, 6, "noPC") {
		return -1
	}
	if oneIn(t, 20, "hugePC") {
		return rapid.SampledFrom([]int64{0x7fffffff, 0x80000000, 0xffffffff, 0x100000000, 0x7fffffffffffffff}).Draw(t, "hugePCValue")
	}
	return int64(rapid.IntRange(1, 0xfffff).Draw(t, "pcoff"))
}

func genFrame(t *rapid.T, p *pools) FrameM {
	var f FrameM
	if oneIn(t, 25, "cSym") {
		f.Pkg, f.Name = "", rapid.SampledFrom(cNamePool).Draw(t, "cname")
	} else {
		f.Pkg, f.Name = genPkg(t), genName(t)
	}
	f.File, f.Line = genFile(t)
	f.PCOff = genPCOff(t)
	if oneIn(t, 12, "inlined") {
		f.Inlined = true
	} else {
		budget := 24
		f.Args = genArgList(t, p, 0, &budget)
	}
	return f
}

func genCreator(t *rapid.T) *CreatorM {
	c := &CreatorM{Pkg: genPkg(t), Name: genName(t)}
	c.File, c.Line = genFile(t)
	c.PCOff = genPCOff(t)
	if rapid.Bool().Draw(t, "parent") {
		c.Parent = rapid.IntRange(1, 5000).Draw(t, "parentID")
	}
	return c
}

func genState(t *rapid.T) string {
	if oneIn(t, 10, "freeState") {
		// Free-form state text: anything printable without ']' and without the header's own
		// item separator ", ".
		s := rapid.StringOfN(rapid.RuneFrom([]rune("abcXYZ 01()[.:-_/éλ,;'\"")), 1, 12, -1).Draw(t, "state")
		s = strings.ReplaceAll(s, ", ", ",_")
		return s
	}
	return rapid.SampledFrom(runtimeStates).Draw(t, "state") + rapid.SampledFrom(stateDecor).Draw(t, "decor")
}

func cloneArgs(a ArgListM) ArgListM {
	out := ArgListM{Dots: a.Dots}
	for _, it := range a.Items {
		if it.Agg != nil {
			sub := cloneArgs(*it.Agg)
			it.Agg = &sub
		}
		out.Items = append(out.Items, it)
	}
	return out
}

func cloneFrames(fs []FrameM) []FrameM {
	out := make([]FrameM, len(fs))
	for i, f := range fs {
		f.Args = cloneArgs(f.Args)
		out[i] = f
	}
	return out
}

// argLists lists an argument list and all aggregates nested in it (depth <= 4 so that wrapping
// stays within the runtime's nesting limit).
func argLists(a *ArgListM) []*ArgListM {
	out := []*ArgListM{a}
	var walk func(l *ArgListM, depth int)
	walk = func(l *ArgListM, depth int) {
		for i := range l.Items {
			if l.Items[i].Agg != nil && depth < 3 {
				out = append(out, l.Items[i].Agg)
				walk(l.Items[i].Agg, depth+1)
			}
		}
	}
	walk(a, 0)
	return out
}

// scalarSlots lists pointers to all scalar (non '_') argument words of the frames.
func scalarSlots(fs []FrameM) []*ArgM {
	var out []*ArgM
	var walk func(a *ArgListM)
	walk = func(a *ArgListM) {
		for i := range a.Items {
			if a.Items[i].Agg != nil {
				walk(a.Items[i].Agg)
			} else if !a.Items[i].TooLarge {
				out = append(out, &a.Items[i])
			}
		}
	}
	for i := range fs {
		walk(&fs[i].Args)
	}
	return out
}

// DumpOpts bounds the dump generator.
type DumpOpts struct {
	MinG       int
	TypicalG   int // usual upper bound of the goroutine count (default 6); MaxG is reached occasionally
	MaxG       int
	MaxFrames  int
	Variants   bool // indentation / CRLF / level-2 / space-indented file lines
	LongLines  bool // occasionally a symbol or path crossing the 16 KiB read buffer
	PoolHeavy  bool // most goroutines are copies / near copies of pooled stacks
	NoUnavail  bool
	FreeInacc  bool // '?' independent of the value: the same value occurs with and without it
	PlainNames bool // only ASCII symbol/file shapes that survive the console/HTML renderers unchanged
}

// elideOneIn: pooled dumps (aggregation, rendering) see elided stacks more often, so that
// buckets whose members all carry the marker but differ elsewhere are common.
func elideOneIn(o DumpOpts) int {
	if o.PoolHeavy {
		return 4
	}
	return 10
}

func genPools(t *rapid.T, o DumpOpts) *pools {
	p := &pools{freeInacc: o.FreeInacc}
	nv := rapid.IntRange(2, 8).Draw(t, "poolVals")
	for i := 0; i < nv; i++ {
		p.vals = append(p.vals, genVal(t, &pools{}))
	}
	maxF := o.MaxFrames
	if maxF > 6 {
		maxF = 6
	}
	if maxF < 1 {
		maxF = 1
	}
	hi := 4
	if o.PoolHeavy {
		hi = 2
	}
	ns := rapid.IntRange(1, hi).Draw(t, "poolStacks")
	for i := 0; i < ns; i++ {
		nf := rapid.IntRange(1, maxF).Draw(t, "poolFrames")
		var fs []FrameM
		for j := 0; j < nf; j++ {
			fs = append(fs, genFrame(t, p))
		}
		p.stacks = append(p.stacks, fs)
	}
	nc := rapid.IntRange(1, hi-1).Draw(t, "poolCreators")
	for i := 0; i < nc; i++ {
		p.creators = append(p.creators, genCreator(t))
	}
	nst := rapid.IntRange(1, hi-1).Draw(t, "poolStates")
	for i := 0; i < nst; i++ {
		p.states = append(p.states, genState(t))
	}
	return p
}

func genG(t *rapid.T, p *pools, o DumpOpts, id int) GM {
	g := GM{ID: id, ElideAt: -1}
	pooled := o.PoolHeavy || rapid.IntRange(0, 2).Draw(t, "pooled") != 0
	if pooled {
		g.State = rapid.SampledFrom(p.states).Draw(t, "gstate")
	} else {
		g.State = genState(t)
	}
	switch rapid.IntRange(0, 5).Draw(t, "minutesKind") {
	case 0:
		g.Minutes = rapid.IntRange(1, 3).Draw(t, "minutes")
	case 1:
		g.Minutes = rapid.IntRange(1, 1<<40).Draw(t, "minutes")
	}
	g.Locked = oneIn(t, 5, "locked")
	if oneIn(t, 20, "bubble") {
		g.Extra = []string{"synctest bubble " + rapid.SampledFrom([]string{"1", "17", "4096"}).Draw(t, "bubbleID")}
	}
	if !o.NoUnavail && oneIn(t, 20, "unavail") {
		g.Unavail = true
	} else if pooled {
		g.Frames = cloneFrames(rapid.SampledFrom(p.stacks).Draw(t, "gstack"))
		// Perturbations: zero or more single-attribute changes relative to the pooled stack.
		np := rapid.IntRange(0, 2).Draw(t, "perturb")
		for k := 0; k < np; k++ {
			switch rapid.IntRange(0, 6).Draw(t, "perturbKind") {
			case 5, 6:
				// change the shape of one argument list: drop or add a field of an
				// aggregate, or wrap a scalar into an aggregate
				f := &g.Frames[rapid.IntRange(0, len(g.Frames)-1).Draw(t, "shapeFrame")]
				lists := argLists(&f.Args)
				l := lists[rapid.IntRange(0, len(lists)-1).Draw(t, "shapeList")]
				switch rapid.IntRange(0, 3).Draw(t, "shapeOp") {
				case 0:
					if len(l.Items) > 0 {
						l.Items = l.Items[:len(l.Items)-1]
					}
				case 1:
					l.Items = append(l.Items, ArgM{Val: genVal(t, p)})
				case 2:
					if len(l.Items) > 0 {
						k := rapid.IntRange(0, len(l.Items)-1).Draw(t, "wrapAt")
						if l.Items[k].Agg == nil {
							inner := l.Items[k]
							l.Items[k] = ArgM{Agg: &ArgListM{Items: []ArgM{inner}}}
						} else if len(l.Items[k].Agg.Items) > 0 && l.Items[k].Agg.Items[0].Agg == nil {
							l.Items[k] = l.Items[k].Agg.Items[0]
						}
					}
				case 3:
					l.Dots = !l.Dots
				}
			case 0, 1, 2:
				if sl := scalarSlots(g.Frames); len(sl) > 0 {
					s := sl[rapid.IntRange(0, len(sl)-1).Draw(t, "slot")]
					s.Val = genVal(t, p)
					s.Inacc = s.Val%7 == 3
				}
			case 3:
				f := &g.Frames[rapid.IntRange(0, len(g.Frames)-1).Draw(t, "frameIdx")]
				if f.Line > 0 && f.Line < 999999999999999990 { // stay below the 18-digit limit
					f.Line += rapid.IntRange(1, 3).Draw(t, "lineDelta")
				}
			case 4:
				if len(g.Frames) > 1 {
					g.Frames = g.Frames[:len(g.Frames)-1]
				}
			}
		}
	} else {
		nf := rapid.IntRange(1, min(o.MaxFrames, 8)).Draw(t, "nframes")
		if o.MaxFrames > 8 && oneIn(t, 30, "deep") {
			nf = rapid.IntRange(9, o.MaxFrames).Draw(t, "nframes")
		}
		for j := 0; j < nf; j++ {
			g.Frames = append(g.Frames, genFrame(t, p))
		}
	}
	if len(g.Frames) > 0 && o.MaxFrames >= 100 && oneIn(t, 40, "runtimeElision") {
		// the runtime's own shape: 50 innermost frames, the marker, 50 outermost frames
		for len(g.Frames) < 100 {
			g.Frames = append(g.Frames, g.Frames[len(g.Frames)%max(1, min(len(g.Frames), 3))])
		}
		g.Frames = cloneFrames(g.Frames[:100])
		g.ElideAt, g.ElideN = 50, rapid.IntRange(1, 5000).Draw(t, "elided")
	} else if len(g.Frames) > 0 && oneIn(t, elideOneIn(o), "elide") {
		if oneIn(t, 4, "elideOld") {
			g.ElideOld = true
			g.ElideAt = len(g.Frames)
		} else {
			g.ElideAt = rapid.IntRange(1, len(g.Frames)).Draw(t, "elideAt")
			g.ElideN = rapid.IntRange(1, 100000).Draw(t, "elideN")
		}
	}
	switch rapid.IntRange(0, 3).Draw(t, "creatorKind") {
	case 0:
	case 1:
		if !pooled {
			g.Creator = genCreator(t)
			break
		}
		fallthrough
	default:
		c := *rapid.SampledFrom(p.creators).Draw(t, "creator")
		g.Creator = &c
		// the same go statement run by another parent: only " in goroutine N" differs
		if c.Parent != 0 && oneIn(t, 4, "otherParent") {
			g.Creator.Parent = c.Parent%5000 + rapid.IntRange(1, 3).Draw(t, "parentDelta")
		}
	}
	return g
}

func genIDs(t *rapid.T, n int) []int {
	ids := make([]int, 0, n)
	seen := map[int]bool{}
	next := rapid.IntRange(1, 40).Draw(t, "firstID")
	for len(ids) < n {
		var id int
		if oneIn(t, 15, "hugeID") {
			id = rapid.IntRange(1, 999999999999999999).Draw(t, "id")
		} else if len(ids) > 0 && oneIn(t, 8, "prefixID") {
			// an earlier id is a decimal prefix of this one (7 and 71): a header cut inside
			// the number names the other goroutine
			if base := ids[rapid.IntRange(0, len(ids)-1).Draw(t, "prefixOf")]; base > 0 && base < 1<<40 {
				id = base*10 + rapid.IntRange(0, 9).Draw(t, "prefixDigit")
			} else {
				continue
			}
		} else {
			next += rapid.IntRange(1, 5).Draw(t, "idStep")
			id = next
		}
		if seen[id] {
			continue
		}
		seen[id] = true
		ids = append(ids, id)
	}
	// Goroutine 0 (the scheduler's g0) shows up in GOTRACEBACK=system / crash dumps.
	if !seen[0] && oneIn(t, 25, "goroutineZero") {
		ids[rapid.IntRange(0, n-1).Draw(t, "zeroAt")] = 0
	}
	// The crashing goroutine is printed first; its id is usually not the smallest.
	if n > 1 && rapid.Bool().Draw(t, "firstNotSmallest") {
		k := rapid.IntRange(0, n-1).Draw(t, "firstIdx")
		ids[0], ids[k] = ids[k], ids[0]
	}
	return ids
}

func genDump(t *rapid.T, o DumpOpts) DumpM {
	d := DumpM{FileIndent: "\t"}
	if o.Variants {
		if oneIn(t, 4, "indented") {
			d.Indent = rapid.SampledFrom([]string{"  ", "\t", "    ", " \t", "        "}).Draw(t, "indent")
			d.BlankIndent = rapid.Bool().Draw(t, "blankIndent")
		}
		d.CRLF = oneIn(t, 4, "crlf")
		if oneIn(t, 4, "spaceFile") {
			d.FileIndent = strings.Repeat(" ", rapid.IntRange(1, 8).Draw(t, "fileSpaces"))
		}
		d.Level2 = oneIn(t, 4, "level2")
	}
	p := genPools(t, o)
	typ := 6
	if o.TypicalG > 0 {
		typ = o.TypicalG
	}
	ng := rapid.IntRange(max(1, o.MinG), min(o.MaxG, typ)).Draw(t, "ngoroutines")
	if o.MaxG > typ && oneIn(t, 10, "many") {
		ng = rapid.IntRange(typ+1, o.MaxG).Draw(t, "ngoroutines")
	}
	ids := genIDs(t, ng)
	for i := 0; i < ng; i++ {
		d.Gs = append(d.Gs, genG(t, p, o, ids[i]))
	}
	if o.LongLines && oneIn(t, 8, "long") {
		// Make one symbol or path cross the reader's 16 KiB buffer.
		g := &d.Gs[rapid.IntRange(0, len(d.Gs)-1).Draw(t, "longG")]
		if len(g.Frames) > 0 {
			f := &g.Frames[rapid.IntRange(0, len(g.Frames)-1).Draw(t, "longF")]
			k := rapid.SampledFrom([]int{16382, 16383, 16384, 16385, 16386, 2*16384 - 1, 2 * 16384, 2*16384 + 1, 5*16384 + 1}).Draw(t, "longLen")
			if rapid.Bool().Draw(t, "longName") {
				f.Name = "L" + strings.Repeat("n", k)
			} else {
				f.File = "/long/" + strings.Repeat("p", k) + ".go"
				if f.Line == 0 {
					f.Line = 1
				}
			}
		}
	}
	return d
}

// features counts the format variants a dump exercises (the non-trivial rule of C01).
func (d *DumpM) features() []string {
	var fs []string
	add := func(c bool, n string) {
		if c {
			fs = append(fs, n)
		}
	}
	add(d.Indent != "", "indent")
	add(d.CRLF, "crlf")
	add(d.Level2, "level2")
	add(d.FileIndent != "\t" && d.FileIndent != "", "spacefile")
	var esc, nested, flags, elide, unavail, parent, long, inl, cs bool
	var walk func(a *ArgListM)
	walk = func(a *ArgListM) {
		if a.Dots {
			flags = true
		}
		for _, it := range a.Items {
			if it.Agg != nil {
				nested = true
				walk(it.Agg)
			}
			if it.Inacc || it.TooLarge {
				flags = true
			}
		}
	}
	for i := range d.Gs {
		g := &d.Gs[i]
		unavail = unavail || g.Unavail
		elide = elide || g.ElideAt >= 0
		if g.Creator != nil {
			parent = parent || g.Creator.Parent != 0
			esc = esc || pathToPrefix(g.Creator.Pkg) != g.Creator.Pkg
		}
		for j := range g.Frames {
			f := &g.Frames[j]
			esc = esc || pathToPrefix(f.Pkg) != f.Pkg
			long = long || len(f.Name) > 16000 || len(f.File) > 16000
			inl = inl || f.Inlined
			cs = cs || f.Pkg == ""
			walk(&f.Args)
		}
	}
	add(esc, "escape")
	add(nested, "nested")
	add(flags, "argflags")
	add(elide, "elided")
	add(unavail, "unavail")
	add(parent, "parentid")
	add(long, "longline")
	add(inl, "inlined")
	add(cs, "csymbol")
	return fs
}

// oneIn is true about once in n draws and shrinks towards false.
func oneIn(t *rapid.T, n int, label string) bool {
	return rapid.IntRange(0, n-1).Draw(t, label) == n-1
}
