package props

import (
	"bytes"
	"errors"
	"fmt"
	"html/template"
	"io"
	"os"
	"path/filepath"
	"runtime"
	"strings"
	"sync"
	"testing"
	"time"

	"github.com/maruel/panicparse/v2/stack"
	"pgregory.net/rapid"
)

// C03 — total robustness: no input crashes or hangs the pipeline.

// fixture source tree: frames of mutated dumps may point into it so that source analysis
// (augmentation) is driven with arbitrary argument lists.
const fixtureSrc = `package main

type T struct{ a, b int }

func F1(a int, b string, c []byte, d map[string]int, e chan int, f func(), g *int, h float64, i bool, j interface{}, k [2]int, l T, m ...int) {
	panic(1)
}

func (t *T) M(x uint8, y int16, z float32) {
	panic(2)
}

func (t T) V(s string, u uintptr) {
	panic(3)
}

func G(a, b, c int32, err error) {
	func() {
		panic(4)
	}()
}

func main() {
	F1(1, "", nil, nil, nil, nil, nil, 0, false, nil, [2]int{}, T{})
}
`

var fixtureLines = []int{6, 10, 14, 18, 19, 24, 1, 27, 999}
var fixtureNames = []string{"F1", "(*T).M", "T.V", "G", "G.func1", "main", "nosuch"}

var (
	fixOnce sync.Once
	fixDir  string
)

func fixtureDir() string {
	fixOnce.Do(func() {
		base := os.Getenv("VERIF_WORK")
		if base == "" {
			base = os.TempDir()
		}
		d, err := os.MkdirTemp(base, "fix")
		if err != nil {
			panic("HARNESS: " + err.Error())
		}
		_ = os.WriteFile(filepath.Join(d, "go.mod"), []byte("module example.com/fix\n\ngo 1.21\n"), 0o644)
		_ = os.WriteFile(filepath.Join(d, "main.go"), []byte(fixtureSrc), 0o644)
		_ = os.WriteFile(filepath.Join(d, "broken.go"), []byte("package main\nfunc (((\n"), 0o644)
		fixDir = d
	})
	return fixDir
}

// numbersDump: every kind of number the format has (ids, minutes, arguments, offsets, line
// numbers, parent ids), in frames that resolve to the fixture sources.
const numbersDump = `panic: boom

goroutine 7 [chan receive, 12 minutes, locked to thread]:
main.F1(0x5, {0xc000012340, 0x3}, {0xc000056000, 0x2, 0x8}, 0xc00007a000, 0xc00007b000, 0x4a1b20, 0xc000014088, 0x400921fb54442d18, 0x1, {0x45e0a0, 0xc000010250}, ...)
	@FIX@/main.go:6 +0x1d
main.(*T).M(0xc000014090, 0xff, 0x8000, 0x3f800000)
	@FIX@/main.go:10 +0x2a fp=0xc000047f28 sp=0xc000047ef0 pc=0x45e1aa
main.T.V({0x1, 0x2}, {0x4b2c11, 0x5}, 0xdeadbeef)
	@FIX@/main.go:14 +0x31
main.G(0x1, 0x2, 0x3, {0x0, 0x0})
	@FIX@/main.go:18 +0x45
...additional frames elided...
created by main.main in goroutine 1
	@FIX@/main.go:24 +0x9b

goroutine 18 [select, 3 minutes]:
main.G.func1(0x7)
	@FIX@/main.go:19 +0x33
created by main.G
	@FIX@/main.go:19 +0x5c
`

var numberSpellings = []string{"", "0", "00", "007", "-1", "1e3", "x", "9", "a", "b", "f", "10", "255", "65536", "2147483647", "2147483648", "4294967295", "4294967296",
	"9223372036854775807", "9223372036854775808", "18446744073709551615", "18446744073709551616", "99999999999999999999", "340282366920938463463374607431768211456"}

type c03Case struct {
	X    []byte // "@FIX@" stands for the fixture directory
	Mode int    // 0 plain, 1 naming, 2 guess paths + analyze sources
	Muts int
}

func c03Opts(mode int) *stack.Opts {
	switch mode {
	case 1:
		return &stack.Opts{NameArguments: true}
	case 2:
		return &stack.Opts{NameArguments: true, GuessPaths: true, AnalyzeSources: true,
			LocalGOROOT: runtime.GOROOT(), LocalGOPATHs: []string{fixtureDir() + "/gopath"}}
	}
	return &stack.Opts{}
}

type countingReader struct {
	r     io.Reader
	reads int
}

func (c *countingReader) Read(p []byte) (int, error) {
	c.reads++
	return c.r.Read(p)
}

// robust runs the whole pipeline over x; any panic is converted to an error by guard().
func robust(x []byte, opts *stack.Opts, html bool) (snaps int, nonEOF bool, err error) {
	rem := len(x)
	cur := x
	lines := bytes.Count(x, []byte("\n")) + 2
	for calls := 0; ; calls++ {
		if calls > lines {
			return snaps, nonEOF, fmt.Errorf("resume loop still running after %d calls on an input of %d lines", calls, lines-2)
		}
		cr := &countingReader{r: bytes.NewReader(cur)}
		snap, suffix, e := stack.ScanSnapshot(cr, io.Discard, opts)
		if cr.reads > len(cur)+3 {
			return snaps, nonEOF, fmt.Errorf("%d Read calls for %d bytes", cr.reads, len(cur))
		}
		if snap != nil {
			snaps++
			if len(snap.Goroutines) == 0 {
				return snaps, nonEOF, fmt.Errorf("snapshot without goroutines")
			}
			_ = snap.IsRace()
			for _, lvl := range []stack.Similarity{stack.ExactFlags, stack.ExactLines, stack.AnyPointer, stack.AnyValue} {
				a := snap.Aggregate(lvl)
				if lvl == stack.AnyPointer && html {
					// the writer cannot fail: an error is the template engine reporting a
					// panic in a method it called (it recovers them)
					var b bytes.Buffer
					if err := a.ToHTML(&b, template.HTML("")); err != nil {
						return snaps, nonEOF, fmt.Errorf("Aggregated.ToHTML into a buffer failed: %v", err)
					}
				}
			}
			if html {
				var b bytes.Buffer
				if err := snap.ToHTML(&b, template.HTML("")); err != nil {
					return snaps, nonEOF, fmt.Errorf("Snapshot.ToHTML into a buffer failed: %v", err)
				}
			}
		}
		if e != nil {
			if e != io.EOF {
				nonEOF = true
			}
			return snaps, nonEOF, nil
		}
		rest, _ := io.ReadAll(cr)
		next := append(append([]byte{}, suffix...), rest...)
		if len(next) >= rem {
			return snaps, nonEOF, fmt.Errorf("no progress: a call returned nil error but the remaining input did not shrink (%d -> %d bytes)", rem, len(next))
		}
		rem = len(next)
		cur = next
	}
}

// withWatchdog runs f; if it does not finish in time it is re-run with a much longer limit
// and only a second trip is reported.
func withWatchdog(f func() error) error {
	run := func(d time.Duration) (error, bool) {
		ch := make(chan error, 1)
		go func() { ch <- guard(f) }()
		select {
		case e := <-ch:
			return e, true
		case <-time.After(d):
			return nil, false
		}
	}
	if e, ok := run(20 * time.Second); ok {
		return e
	}
	statsFor("C03").note("watchdog tripped once at 20s; re-running with 120s")
	if e, ok := run(120 * time.Second); ok {
		return e
	}
	return fmt.Errorf("HANG: pipeline did not return within 120s (second attempt)")
}

// stallReader delivers data[:at] and then reports "no bytes, no error" for ever, which the
// io.Reader contract allows; it gives up with an error of its own after limit such calls so
// that a scanner without a retry bound still comes back and can be told apart.
type stallReader struct {
	data   []byte
	at     int
	pos    int
	stalls int
	limit  int
}

var errStallLimit = errors.New("stall limit")

func (r *stallReader) Read(p []byte) (int, error) {
	if r.pos < r.at {
		n := copy(p, r.data[r.pos:r.at])
		r.pos += n
		return n, nil
	}
	r.stalls++
	if r.stalls > r.limit {
		return 0, errStallLimit
	}
	return 0, nil
}

func c03Oracle(c c03Case) error {
	x := bytes.ReplaceAll(c.X, []byte("@FIX@"), []byte(fixtureDir()))
	return withWatchdog(func() error {
		_, _, err := robust(x, c03Opts(c.Mode), true)
		if err != nil {
			return err
		}
		// A source that stops making progress at some offset: the scan gives up after a bounded
		// number of empty reads instead of spinning.
		if len(x) > 0 {
			sr := &stallReader{data: x, at: int(digestBytes(x) % uint64(len(x)+1)), limit: 100000}
			_, _, e := stack.ScanSnapshot(sr, io.Discard, c03Opts(c.Mode))
			if sr.stalls > 10000 {
				return fmt.Errorf("the reader returned (0, nil) from offset %d on: ScanSnapshot kept calling Read more than %d times (err=%v) instead of giving up", sr.at, sr.stalls-1, e)
			}
		}
		return nil
	})
}

func genC03Input(t *rapid.T) ([]byte, int) {
	o := StreamOpts{MinItems: 1, MaxItems: 3,
		Dump: DumpOpts{MaxG: 6, MaxFrames: 5, Variants: true, PoolHeavy: rapid.Bool().Draw(t, "pooled"), LongLines: true},
		Race: RaceOpts{MaxOps: 3, MaxFrames: 3, Args: true},
		Junk: JunkOpts{MaxLines: 3, Binary: true, Long: true}}
	s := genStream(t, o)
	// Point some frames into the fixture tree.
	for i := range s.Items {
		if d := s.Items[i].Dump; d != nil {
			for gi := range d.Gs {
				for fi := range d.Gs[gi].Frames {
					if oneIn(t, 3, "fixtureFrame") {
						f := &d.Gs[gi].Frames[fi]
						f.Pkg = "main"
						f.Name = rapid.SampledFrom(fixtureNames).Draw(t, "fixName")
						f.File = "@FIX@/" + rapid.SampledFrom([]string{"main.go", "main.go", "broken.go", "missing.go"}).Draw(t, "fixFile")
						f.Line = rapid.SampledFrom(fixtureLines).Draw(t, "fixLine")
					} else if oneIn(t, 6, "stdLookalike") {
						// a path whose tail exists below the local Go root, behind an arbitrary prefix
						f := &d.Gs[gi].Frames[fi]
						f.File = rapid.SampledFrom([]string{"/a", "", "/x/y", "/usr/lib/go/src", "/go/src", "/s", "@FIX@"}).Draw(t, "stdPrefix") + "/" +
							rapid.SampledFrom([]string{"fmt/print.go", "runtime/proc.go", "os/file.go", "net/http/server.go"}).Draw(t, "stdTail")
						f.Line = rapid.IntRange(1, 200).Draw(t, "stdLine")
					} else if oneIn(t, 12, "shortUnderRoot") {
						// a file directly below what another frame reveals as the remote Go root
						f := &d.Gs[gi].Frames[fi]
						f.File = rapid.SampledFrom([]string{"/usr/lib/go", "/go", "/x/y", "/s"}).Draw(t, "shortRoot") + rapid.SampledFrom([]string{"/z.s", "/a.go", "x.s", ".go", "/s.c"}).Draw(t, "shortTail")
					}
				}
			}
		}
	}
	lines := splitLines(s.Bytes())
	m, ne := mutateLines(t, lines, 8)
	return joinLines(m), ne
}

var c03Mut = Check[c03Case]{
	Prop: "C03", Name: "mutation",
	Gen: func(t *rapid.T) c03Case {
		x, ne := genC03Input(t)
		return c03Case{X: x, Mode: rapid.IntRange(0, 2).Draw(t, "mode"), Muts: ne}
	},
	Oracle: c03Oracle,
	Obs: func(c c03Case) Obs {
		x := bytes.ReplaceAll(c.X, []byte("@FIX@"), []byte(fixtureDir()))
		var snaps int
		var nonEOF bool
		_ = guard(func() error {
			var e error
			snaps, nonEOF, e = robust(x, c03Opts(0), false)
			return e
		})
		cl := []string{fmt.Sprintf("mode%d", c.Mode)}
		if snaps > 0 {
			cl = append(cl, "snapshot")
		}
		if nonEOF {
			cl = append(cl, "parse_error")
		}
		return Obs{Nontrivial: (snaps > 0 || nonEOF) && c.Muts >= 1, Digest: digestBytes(c.X, []byte{byte(c.Mode)}), Classes: cl, Sample: quoteShort(c.X)}
	},
}

// ---- pp end to end ----------------------------------------------------------------------

type c03PPCase struct {
	X    []byte
	HTML bool
}

func c03PPOracle(c c03PPCase) error {
	x := bytes.ReplaceAll(c.X, []byte("@FIX@"), []byte(fixtureDir()))
	args := []string{"-no-color"}
	var htmlPath string
	if c.HTML {
		f, err := os.CreateTemp(os.Getenv("VERIF_WORK"), "out*.html")
		if err != nil {
			return fmt.Errorf("HARNESS: %v", err)
		}
		htmlPath = f.Name()
		f.Close()
		defer os.Remove(htmlPath)
		args = append(args, "-html", htmlPath)
	}
	r, err := runPP(x, args...)
	if err != nil {
		return err
	}
	if r.Code != 0 && r.Code != 1 {
		return fmt.Errorf("pp exited with status %d; stderr=%q", r.Code, quoteShort(r.Err))
	}
	// pp reports its own errors as one "Failed: ..." line quoting the input with %q, so a
	// stderr line that *starts* like a Go crash report can only come from the runtime.
	for _, l := range bytes.Split(r.Err, []byte("\n")) {
		if bytes.HasPrefix(l, []byte("panic: ")) || bytes.HasPrefix(l, []byte("fatal error: ")) || bytes.HasPrefix(l, []byte("goroutine ")) {
			return fmt.Errorf("pp crashed: %q", quoteShort(r.Err))
		}
	}
	return nil
}

var c03PP = Check[c03PPCase]{
	Prop: "C03", Name: "pp",
	Gen: func(t *rapid.T) c03PPCase {
		x, _ := genC03Input(t)
		return c03PPCase{X: x, HTML: rapid.Bool().Draw(t, "html")}
	},
	Oracle: c03PPOracle,
	Obs: func(c c03PPCase) Obs {
		return Obs{Nontrivial: true, Digest: digestBytes(c.X, []byte(fmt.Sprint(c.HTML))), Classes: []string{"pp"}, Sample: nil}
	},
}

// ---- exhaustive sequences of line kinds ---------------------------------------------------

// seqAlphabet: one concrete line per line kind of both grammars.
var seqAlphabet = []string{
	"goroutine 1 [running]:",
	"goroutine 2 [chan receive, 3 minutes, locked to thread]:",
	"  goroutine 3 [select]:",
	"main.foo(0x1, {0xc000012340, ...})",
	"main.bar({0x1)",
	"\t/a/b.go:12 +0x1",
	"created by main.baz in goroutine 1",
	"",
	"...additional frames elided...",
	"...3 frames elided...",
	"\tgoroutine running on other thread; stack unavailable",
	"==================",
	"WARNING: DATA RACE",
	"Read at 0x00c000012340 by goroutine 5:",
	"Previous write at 0x00c000012340 by goroutine 6:",
	"Goroutine 5 (running) created at:",
	"Goroutine 99 (finished) created at:",
	"  main.qux()",
	"      /a/c.go:7 +0x2",
	"junk",
	"junk (x)",
	"Write at 0x00c000012348 by goroutine 7:",
}

// parkPrefixes leave the scanner in each documented non-terminal state.
var parkPrefixes = [][]int{
	{},                                     // looking
	{0},                                    // gotRoutineHeader
	{0, 3},                                 // gotFunc
	{0, 3, 5},                              // gotFileFunc
	{0, 3, 5, 6},                           // gotCreated
	{0, 3, 5, 6, 5},                        // gotFileCreated
	{0, 10},                                // gotUnavail
	{0, 3, 5, 7},                           // betweenRoutine
	{2},                                    // indented: gotRoutineHeader
	{2, 17, 18},                            // indented: gotFileFunc
	{11},                                   // gotRaceHeader1
	{11, 12},                               // gotRaceHeader2
	{11, 12, 13},                           // gotRaceOperationHeader
	{11, 12, 13, 17},                       // gotRaceOperationFunc
	{11, 12, 13, 17, 18},                   // gotRaceOperationFile
	{11, 12, 13, 17, 18, 7},                // betweenRaceOperations
	{11, 12, 13, 17, 18, 7, 14, 17, 18, 7}, // betweenRaceOperations, two operations
	{11, 12, 13, 17, 18, 7, 15},            // gotRaceGoroutineHeader
	{11, 12, 13, 17, 18, 7, 15, 17},        // gotRaceGoroutineFunc
	{11, 12, 13, 17, 18, 7, 15, 17, 18},    // gotRaceGoroutineFile
	{11, 12, 13, 17, 18, 7, 15, 17, 18, 7}, // betweenRaceGoroutines
}

type seqCase struct {
	Prefix []int
	Seq    []int
	NoEOL  bool
	CRLF   bool
	HTML   bool // also render every snapshot as HTML (sampled: rendering dominates the cost)
}

func (c *seqCase) bytes() []byte {
	var b bytes.Buffer
	eol := "\n"
	if c.CRLF {
		eol = "\r\n"
	}
	all := append(append([]int{}, c.Prefix...), c.Seq...)
	for i, k := range all {
		b.WriteString(seqAlphabet[k])
		if i == len(all)-1 && c.NoEOL {
			break
		}
		b.WriteString(eol)
	}
	return b.Bytes()
}

// forEachSeq enumerates all sequences over the alphabet of length 1..maxLen (sharded).
func forEachSeq(maxLen int, f func(idx int, seq []int)) int {
	total := 0
	na := len(seqAlphabet)
	for l := 1; l <= maxLen; l++ {
		cnt := 1
		for i := 0; i < l; i++ {
			cnt *= na
		}
		seq := make([]int, l)
		for i := 0; i < cnt; i++ {
			if shardOwns(total + i) {
				v := i
				for j := l - 1; j >= 0; j-- {
					seq[j] = v % na
					v /= na
				}
				f(total+i, seq)
			}
		}
		total += cnt
	}
	return total
}

var c03Seq = Check[seqCase]{
	Prop: "C03", Name: "seq",
	Oracle: func(c seqCase) error {
		x := c.bytes()
		for mode := 0; mode < 2; mode++ {
			if _, _, err := robust(x, c03Opts(mode), c.HTML && mode == 1); err != nil {
				return err
			}
		}
		return nil
	},
}

func init() {
	register(c03Mut.key(), c03Mut.Oracle)
	register(c03PP.key(), c03PP.Oracle)
	register(c03Seq.key(), c03Seq.Oracle)
}

func TestC03(t *testing.T) {
	st := statsFor("C03")
	// (c) every sequence of line kinds up to a bounded length, from every parked state.
	maxLen := n(2, 4)
	var cnt, nt int64
	for pi, pre := range parkPrefixes {
		ml := maxLen
		if pi == 0 {
			ml = maxLen + 1
		}
		forEachSeq(ml, func(idx int, seq []int) {
			for v := 0; v < 2; v++ {
				c := seqCase{Prefix: pre, Seq: seq, NoEOL: v == 1, HTML: idx%67 == 0}
				if !c03Seq.Each(t, c) {
					return
				}
				cnt++
				if len(pre) > 0 || containsStart(seq) {
					nt++
				}
			}
		})
	}
	st.count(cnt, nt)
	st.class("kind_sequences", cnt)
	st.exhaustive(fmt.Sprintf("line-kind sequences: %d kinds, length<=%d from the initial state, <=%d after each of %d parking prefixes, x{terminated,unterminated}", len(seqAlphabet), maxLen+1, maxLen, len(parkPrefixes)-1), cnt)
	st.sample(map[string]any{"kind_sequence": strings.Split(string((&seqCase{Prefix: parkPrefixes[9], Seq: []int{7, 0, 4}}).bytes()), "\n")})

	// (d) every number of a dump whose frames point into the fixture sources, replaced by
	// every boundary spelling, under the plain and the source-analysing option set.
	var ncnt int64
	locs := reDigits.FindAllIndex([]byte(numbersDump), -1)
	idx := 0
	for _, loc := range locs {
		for _, repl := range numberSpellings {
			for _, mode := range []int{0, 2} {
				idx++
				if !shardOwns(idx) {
					continue
				}
				x := numbersDump[:loc[0]] + repl + numbersDump[loc[1]:]
				if !c03Mut.Each(t, c03Case{X: []byte(x), Mode: mode, Muts: 1}) {
					return
				}
				ncnt++
			}
		}
	}
	st.count(ncnt, ncnt)
	st.class("number_boundary_substitutions", ncnt)

	a := c03Mut
	a.Checks = n(2500, 20000)
	a.Run(t)
	b := c03PP
	b.Checks = n(40, 800)
	b.Run(t)
}

func containsStart(seq []int) bool {
	for _, k := range seq {
		if k == 0 || k == 1 || k == 2 || k == 11 {
			return true
		}
	}
	return false
}
