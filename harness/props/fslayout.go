package props

// File-system layouts for path rebasing (C18) and determinism (C06): a local Go root, GOPATH
// source trees and module caches, go.mod modules and "go run" files, materialised under a
// scratch directory, with the remote-root renaming and the ground truth per file.

import (
	"fmt"
	"os"
	"path"
	"path/filepath"
	"sort"
	"strings"
	"sync"

	"github.com/maruel/panicparse/v2/stack"
	"pgregory.net/rapid"
)

// LFile is a source file below some root.
type LFile struct {
	Rel     string // path below the root's source directory, e.g. "net/http/server.go"
	Present bool   // exists on the local disk
}

// LGopath is one GOPATH: src tree and module cache.
type LGopath struct {
	Remote string  // remote root, e.g. "/home/u1/go"
	Src    []LFile // below src/
	Mod    []LFile // below pkg/mod/, e.g. "github.com/a/b@v1.2.3/c/d.go"
	// ModRemote: the remote machine kept its module cache outside its GOPATH (GOMODCACHE);
	// locally both trees lie under this one GOPATH. "" = below Remote.
	ModRemote string `json:",omitempty"`
}

func (g *LGopath) modRemote() string {
	if g.ModRemote != "" {
		return g.ModRemote
	}
	return g.Remote
}

// LModule is a local module (or, with Loose, a directory of "go run" files without go.mod).
type LModule struct {
	Dir     string // below the scratch base, e.g. "m0/x/y"
	ModPath string // module line of go.mod
	Files   []LFile
	Loose   bool
	// Header: bytes of comment lines in front of the module line of go.mod (a licence header)
	Header int `json:",omitempty"`
	// Top: the module directory is the first component of its files' paths (WORKDIR /app of a
	// container): it is created directly under the file system root when that is writable,
	// and removed together with the case's scratch directory.
	Top bool `json:",omitempty"`
}

var (
	topOnce sync.Once
	topOK   bool
)

// canWriteTop: directories can be created directly under "/" (the checks run as root in a
// sandbox); otherwise Top modules lie below the scratch directory like the others.
func canWriteTop() bool {
	topOnce.Do(func() {
		p := fmt.Sprintf("/vt-probe-%d", os.Getpid())
		if os.Mkdir(p, 0o755) == nil {
			topOK = true
			_ = os.Remove(p)
		}
	})
	return topOK
}

// topPrefix names the top-level directories that belong to one scratch directory.
func topPrefix(base string) string {
	tag := os.Getenv("VERIF_TOPTAG")
	if tag == "" {
		tag = "0"
	}
	// (the scratch directories of different shards have different parents and could, in
	// principle, draw the same random name)
	return "/vt-" + tag + "-" + os.Getenv("VERIF_SHARD") + "-" + filepath.Base(base) + "-"
}

func (m *LModule) root(base string) string {
	if m.Top && canWriteTop() {
		return topPrefix(base) + strings.ReplaceAll(m.Dir, "/", "_")
	}
	return base + "/" + m.Dir
}

// Layout is a whole configuration. Remote and local paths of modules coincide ("@BASE@/...").
type Layout struct {
	GorootRemote string  // "" = no Go root
	Goroot       []LFile // below src/
	Gopaths      []LGopath
	Modules      []LModule
	Extra        []string // absolute remote paths under no root
	TestMain     bool
	// TestMainAt: where the go-test generated main lies: 0 under no root (go build temp dir),
	// 1 below the first GOPATH's src, 2 below the first module, 3 below the Go root's src.
	TestMainAt int
	// Toolchain: the Go root lies inside the first GOPATH's module cache, locally and remotely
	// (what GOTOOLCHAIN=auto downloads). Which roots get detected then depends on the order of
	// the files, so such a layout is checked by the validity rules only.
	Toolchain bool `json:",omitempty"`
}

// fileTruth is the expected resolution of one remote path.
type fileTruth struct {
	Remote   string
	Local    string
	Rel      string
	Import   string
	Loc      stack.Location
	Present  bool
	Known    bool // lies under one of the layout's roots
	Testmain bool
	// ImportFromFunc: the file lies directly in a root's source directory, so the path says
	// nothing about the package: the import path stays the one of the function symbol
	ImportFromFunc bool
}

const toolchainDir = "/pkg/mod/golang.org/toolchain@v0.0.1-go1.22.5.linux-amd64"

func (l *Layout) localGoroot(base string) string {
	if l.GorootRemote == "" {
		return ""
	}
	if l.Toolchain && len(l.Gopaths) > 0 {
		return base + "/gp0" + toolchainDir
	}
	return base + "/goroot"
}

func (l *Layout) localGopaths(base string) []string {
	var out []string
	for i := range l.Gopaths {
		out = append(out, fmt.Sprintf("%s/gp%d", base, i))
	}
	return out
}

func dirOf(rel string) string {
	if i := strings.LastIndexByte(rel, '/'); i != -1 {
		return rel[:i]
	}
	return ""
}

// at returns the layout with the placeholder "@BASE@" in remote paths replaced by the scratch
// directory: a remote root may be a directory of this machine (the dump was taken here, or on
// a machine whose GOPATH is spelled like one of ours).
func (l *Layout) at(base string) *Layout {
	sub := func(s string) string { return strings.ReplaceAll(s, "@BASE@", base) }
	c := *l
	c.GorootRemote = sub(l.GorootRemote)
	c.Gopaths = append([]LGopath(nil), l.Gopaths...)
	for i := range c.Gopaths {
		c.Gopaths[i].Remote = sub(c.Gopaths[i].Remote)
		c.Gopaths[i].ModRemote = sub(c.Gopaths[i].ModRemote)
	}
	c.Extra = nil
	for _, e := range l.Extra {
		c.Extra = append(c.Extra, sub(e))
	}
	return &c
}

// truths lists every file of the layout with its expected resolution.
func (l *Layout) truths(base string) []fileTruth {
	l = l.at(base)
	var out []fileTruth
	for _, f := range l.Goroot {
		out = append(out, fileTruth{Remote: l.GorootRemote + "/src/" + f.Rel, Local: l.localGoroot(base) + "/src/" + f.Rel, Rel: f.Rel, Import: dirOf(f.Rel), Loc: stack.Stdlib, Present: f.Present, Known: true, ImportFromFunc: dirOf(f.Rel) == ""})
	}
	for i, g := range l.Gopaths {
		lp := fmt.Sprintf("%s/gp%d", base, i)
		for _, f := range g.Src {
			out = append(out, fileTruth{Remote: g.Remote + "/src/" + f.Rel, Local: lp + "/src/" + f.Rel, Rel: f.Rel, Import: dirOf(f.Rel), Loc: stack.GOPATH, Present: f.Present, Known: true, ImportFromFunc: dirOf(f.Rel) == ""})
		}
		for _, f := range g.Mod {
			out = append(out, fileTruth{Remote: g.modRemote() + "/pkg/mod/" + f.Rel, Local: lp + "/pkg/mod/" + f.Rel, Rel: f.Rel, Import: dirOf(f.Rel), Loc: stack.GoPkg, Present: f.Present, Known: true, ImportFromFunc: dirOf(f.Rel) == ""})
		}
	}
	for _, m := range l.Modules {
		root := m.root(base)
		for _, f := range m.Files {
			imp := m.ModPath
			if m.Loose {
				imp = "main"
			}
			if d := dirOf(f.Rel); d != "" {
				imp += "/" + d
			}
			out = append(out, fileTruth{Remote: root + "/" + f.Rel, Local: root + "/" + f.Rel, Rel: f.Rel, Import: imp, Loc: stack.GoMod, Present: f.Present, Known: true})
		}
	}
	for _, e := range l.Extra {
		out = append(out, fileTruth{Remote: e})
	}
	return out
}

// materialise writes the layout below base.
func (l *Layout) materialise(base string) error {
	write := func(p, content string) error {
		if err := os.MkdirAll(filepath.Dir(p), 0o755); err != nil {
			return err
		}
		return os.WriteFile(p, []byte(content), 0o644)
	}
	for _, t := range l.truths(base) {
		if t.Known && t.Present {
			if err := write(t.Local, "package x\n"); err != nil {
				return err
			}
		}
	}
	for _, m := range l.Modules {
		if !m.Loose {
			hdr := ""
			for len(hdr) < m.Header {
				hdr += "// Copyright the authors. Use of this source code is governed by a licence.\n"
			}
			if len(hdr) > m.Header {
				hdr = hdr[:max(m.Header-1, 0)] + "\n"
			}
			if err := write(m.root(base)+"/go.mod", hdr+"module "+m.ModPath+"\n\ngo 1.21\n"); err != nil {
				return err
			}
		}
	}
	// Roots exist even when empty.
	if l.GorootRemote != "" {
		_ = os.MkdirAll(l.localGoroot(base)+"/src", 0o755)
	}
	for i := range l.Gopaths {
		_ = os.MkdirAll(fmt.Sprintf("%s/gp%d/src", base, i), 0o755)
	}
	return nil
}

func isFileLocal(p string) bool {
	i, err := os.Stat(p)
	return err == nil && !i.IsDir()
}

// ambiguous: some referenced remote path has a candidate local file other than its own (a
// tail of the path also exists below another local root, or at another depth).
func (l *Layout) ambiguous(base string, refs []fileTruth) bool {
	l = l.at(base)
	var roots []string
	if l.GorootRemote != "" {
		roots = append(roots, l.localGoroot(base)+"/src")
	}
	for i := range l.Gopaths {
		roots = append(roots, fmt.Sprintf("%s/gp%d/src", base, i), fmt.Sprintf("%s/gp%d/pkg/mod", base, i))
	}
	for _, t := range refs {
		parts := strings.Split(strings.TrimPrefix(t.Remote, "/"), "/")
		for i := 0; i < len(parts); i++ {
			suffix := strings.Join(parts[i:], "/")
			head := "/" + strings.Join(parts[:i], "/")
			for _, r := range roots {
				// a tail only competes for a root when what precedes it ends like that
				// kind of root (".../src" or ".../pkg/mod"): a remote root is such a directory
				kind := "/src"
				if strings.HasSuffix(r, "/pkg/mod") {
					kind = "/pkg/mod"
				}
				if !strings.HasSuffix(head, kind) {
					continue
				}
				cand := r + "/" + suffix
				if isFileLocal(cand) && cand != t.Local {
					return true
				}
				if isFileLocal(cand) && cand == t.Local && (t.Loc == stack.GoMod || !t.Known) {
					return true
				}
			}
		}
		// a module file must not also look like a plain existing file of another kind
	}
	// A module nested in another one: which of the two roots is detected depends on the order
	// in which their files are met; only the validity rules apply.
	for i := range l.Modules {
		for j := range l.Modules {
			if i != j && strings.HasPrefix(l.Modules[j].Dir+"/", l.Modules[i].Dir+"/") {
				return true
			}
		}
	}
	// Remote roots must not be prefixes of one another (disjoint roots).
	var rr []string
	if l.GorootRemote != "" {
		rr = append(rr, l.GorootRemote)
	}
	for _, g := range l.Gopaths {
		rr = append(rr, g.Remote)
		if g.ModRemote != "" {
			rr = append(rr, g.ModRemote)
		}
	}
	for i := range rr {
		for j := range rr {
			if i != j && (rr[i] == rr[j] || strings.HasPrefix(rr[j]+"/", rr[i]+"/")) {
				return true
			}
		}
	}
	return false
}

// ---- generator -----------------------------------------------------------------------------

var fsElems = []string{"a", "b", "c", "x", "pkg", "src", "mod", "go", "cmd", "internal", "café", "日本", "my dir"}
var fsHosts = []string{"github.com/u/r", "github.com/u/q", "golang.org/x/net", "gopkg.in/y.v2", "example.com/m", "corp/lib"}
var fsStd = []string{"fmt/print.go", "net/http/server.go", "runtime/proc.go", "runtime/panic.go", "os/file.go", "a/b.go", "internal/poll/fd.go"}

func genRelPath(t *rapid.T, maxDepth int) string {
	n := rapid.IntRange(0, maxDepth).Draw(t, "depth")
	var el []string
	for i := 0; i < n; i++ {
		el = append(el, rapid.SampledFrom(fsElems).Draw(t, "elem"))
	}
	el = append(el, rapid.SampledFrom([]string{"a.go", "b.go", "main.go", "x_test.go", "z.s"}).Draw(t, "file"))
	return strings.Join(el, "/")
}

func genRemoteRoot(t *rapid.T, tag string) string {
	n := rapid.IntRange(1, 4).Draw(t, "rootDepth")
	el := []string{}
	for i := 0; i < n; i++ {
		el = append(el, rapid.SampledFrom([]string{"home", "u", "usr", "lib", "go", "r", "opt", tag, "rené", "Program Files", "src", "srcs", "pkg", "mod"}).Draw(t, "rootElem"))
	}
	if oneIn(t, 6, "driveLetterRoot") {
		// a dump taken on Windows (the runtime prints forward slashes) analysed here
		return rapid.SampledFrom([]string{"C:", "D:", "c:"}).Draw(t, "drive") + "/" + strings.Join(el, "/") + "/" + tag
	}
	return "/" + strings.Join(el, "/") + "/" + tag
}

func genLayout(t *rapid.T, nested bool) Layout {
	var l Layout
	present := func() bool { return !oneIn(t, 5, "absent") }
	if !oneIn(t, 4, "noGoroot") {
		l.GorootRemote = genRemoteRoot(t, "goroot")
		k := rapid.IntRange(0, 3).Draw(t, "nstd")
		seen := map[string]bool{}
		for i := 0; i < k; i++ {
			f := rapid.SampledFrom(fsStd).Draw(t, "std")
			if !seen[f] {
				seen[f] = true
				l.Goroot = append(l.Goroot, LFile{Rel: f, Present: present()})
			}
		}
	}
	ngp := rapid.IntRange(0, 3).Draw(t, "ngopath")
	for i := 0; i < ngp; i++ {
		g := LGopath{Remote: genRemoteRoot(t, fmt.Sprintf("gopath%d", i))}
		if i > 0 && oneIn(t, 3, "siblingGopath") {
			g.Remote = l.Gopaths[0].Remote + rapid.SampledFrom([]string{"2", "x", "-old"}).Draw(t, "gpSuffix") + fmt.Sprint(i)
		}
		seen := map[string]bool{}
		for j, k := 0, rapid.IntRange(0, 3).Draw(t, "nsrc"); j < k; j++ {
			f := rapid.SampledFrom(fsHosts).Draw(t, "host") + "/" + genRelPath(t, 2)
			if oneIn(t, 6, "stdlikeInGopath") {
				f = rapid.SampledFrom(fsStd).Draw(t, "stdlike")
			} else if oneIn(t, 8, "rootLevelFile") {
				f = rapid.SampledFrom([]string{"main.go", "x.go"}).Draw(t, "rootFile") // directly in $GOPATH/src
			}
			if !seen[f] {
				seen[f] = true
				g.Src = append(g.Src, LFile{Rel: f, Present: present()})
			}
		}
		for j, k := 0, rapid.IntRange(0, 3).Draw(t, "nmod"); j < k; j++ {
			f := rapid.SampledFrom(fsHosts).Draw(t, "mhost") + "@" + rapid.SampledFrom([]string{"v1.2.3", "v0.0.0-20200223170610-d5e6a3e2c0ae", "v2.0.0+incompatible"}).Draw(t, "ver") + "/" + genRelPath(t, 2)
			if !seen[f] {
				seen[f] = true
				g.Mod = append(g.Mod, LFile{Rel: f, Present: present()})
			}
		}
		if len(g.Src) > 0 && len(g.Mod) > 0 && oneIn(t, 3, "modCacheElsewhere") {
			g.ModRemote = genRemoteRoot(t, fmt.Sprintf("modcache%d", i))
		}
		l.Gopaths = append(l.Gopaths, g)
	}
	sameMachine := false
	if ngp >= 2 && oneIn(t, 6, "remoteLikeEarlierLocal") {
		// the dump comes from a machine whose GOPATH is spelled like one of ours; the files are
		// in another of our GOPATHs
		j := rapid.IntRange(1, ngp-1).Draw(t, "likeLocalWhich")
		l.Gopaths[j].Remote = fmt.Sprintf("@BASE@/gp%d", rapid.IntRange(0, j-1).Draw(t, "likeLocalOf"))
	} else if ngp >= 1 && oneIn(t, 6, "sameMachineGopath") {
		// the dump was taken on this machine
		l.Gopaths[0].Remote = "@BASE@/gp0"
		sameMachine = true
	}
	nm := rapid.IntRange(0, 3).Draw(t, "nmodules")
	for i := 0; i < nm; i++ {
		m := LModule{Dir: fmt.Sprintf("m%d", i), ModPath: rapid.SampledFrom(fsHosts).Draw(t, "modpath")}
		for j, k := 0, rapid.IntRange(0, 3).Draw(t, "moddepth"); j < k; j++ {
			m.Dir += "/" + rapid.SampledFrom(fsElems).Draw(t, "moddir")
		}
		if i == 0 && sameMachine && oneIn(t, 2, "moduleInsideGopathDir") {
			// GOPATH=$HOME with a project in ~/work/app: inside the GOPATH directory, outside
			// its src and pkg/mod
			m.Dir = "gp0/" + rapid.SampledFrom([]string{"work/app", "w", "srcs/app", "tmp/x/y"}).Draw(t, "insideGopath")
		}
		if i > 0 && oneIn(t, 3, "siblingPrefix") {
			// a sibling directory whose name merely starts with another root's name
			m.Dir = l.Modules[0].Dir + rapid.SampledFrom([]string{"2", "x", "-old", "_"}).Draw(t, "siblingSuffix") + fmt.Sprint(i)
		}
		m.Loose = oneIn(t, 4, "loose")
		if oneIn(t, 4, "gomodHeader") {
			m.Header = rapid.SampledFrom([]int{80, 500, 1000, 1015, 1024, 1500, 4090, 5000}).Draw(t, "gomodHeaderBytes")
		}
		seen := map[string]bool{}
		for j, k := 0, rapid.IntRange(1, 3).Draw(t, "nmfiles"); j < k; j++ {
			f := genRelPath(t, 3)
			if m.Loose {
				f = path.Base(f) // "go run" files sit directly in their directory
			}
			if !seen[f] {
				seen[f] = true
				m.Files = append(m.Files, LFile{Rel: f, Present: present()})
			}
		}
		if m.Loose {
			// without go.mod an absent file resolves to nothing at all
			m.ModPath = ""
		}
		m.Top = !nested && oneIn(t, 5, "topLevelModule")
		l.Modules = append(l.Modules, m)
	}
	if nested && len(l.Modules) > 0 {
		// a module nested in another one, and a GOPATH below another GOPATH's remote root:
		// used for determinism only (which root "owns" a file is not fixed by the property).
		outer := l.Modules[0]
		if !outer.Loose {
			inner := LModule{Dir: outer.Dir + "/sub", ModPath: "other.org/inner", Files: []LFile{{Rel: "b.go", Present: true}, {Rel: "d/e.go", Present: true}}}
			l.Modules[0].Files = append(l.Modules[0].Files, LFile{Rel: "z/c.go", Present: true})
			l.Modules = append(l.Modules, inner)
		}
		if len(l.Gopaths) >= 2 && oneIn(t, 2, "nestedGopath") {
			l.Gopaths[1].Remote = l.Gopaths[0].Remote + "/src/deep"
		}
	}
	for j, k := 0, rapid.IntRange(0, 2).Draw(t, "nextra"); j < k; j++ {
		l.Extra = append(l.Extra, "/nowhere/"+genRelPath(t, 3))
	}
	if oneIn(t, 4, "lookalike") {
		// a path under no root whose tail coincides with a file of a local root, behind a
		// prefix that is not a .../src (or .../pkg/mod) directory
		var tails []string
		for _, f := range l.Goroot {
			tails = append(tails, f.Rel)
		}
		for _, g := range l.Gopaths {
			for _, f := range g.Src {
				tails = append(tails, f.Rel)
			}
			for _, f := range g.Mod {
				tails = append(tails, f.Rel)
			}
		}
		if len(tails) > 0 {
			pre := rapid.SampledFrom([]string{"/a", "/x/y", "/ab", "/opt/copy/of", "/s"}).Draw(t, "lookalikePrefix")
			l.Extra = append(l.Extra, pre+"/"+rapid.SampledFrom(tails).Draw(t, "lookalikeTail"))
		}
	}
	if oneIn(t, 4, "shortUnderRoot") {
		// a file directly below a remote root, only a few bytes longer than the root itself
		// (an assembly stub next to src/, say): it lies under no source tree
		var roots []string
		if l.GorootRemote != "" {
			roots = append(roots, l.GorootRemote)
		}
		for _, g := range l.Gopaths {
			roots = append(roots, g.Remote)
		}
		if len(roots) > 0 {
			l.Extra = append(l.Extra, rapid.SampledFrom(roots).Draw(t, "shortRoot")+rapid.SampledFrom([]string{"/z.s", "/a.go", "x.s", "/s.c", ".go"}).Draw(t, "shortTail"))
		}
	}
	if l.GorootRemote != "" && len(l.Gopaths) > 0 && len(l.Goroot) > 0 && oneIn(t, 8, "toolchainInModCache") {
		l.Toolchain = true
		l.Gopaths[0].ModRemote = ""
		l.GorootRemote = l.Gopaths[0].Remote + toolchainDir
	}
	l.TestMain = oneIn(t, 4, "testmain")
	l.TestMainAt = rapid.IntRange(0, 3).Draw(t, "testmainAt")
	return l
}

// dumpFor prints a dump whose frames reference the given remote paths.
func dumpFor(refs []string, order []int) DumpM {
	d := DumpM{FileIndent: "\t"}
	per := 3
	for gi := 0; gi*per < len(order); gi++ {
		g := GM{ID: gi + 1, State: "running", ElideAt: -1}
		for _, k := range order[gi*per : min(len(order), (gi+1)*per)] {
			p := refs[k]
			pkg := "main"
			if k%2 == 1 {
				pkg = "example.com/p" + fmt.Sprint(k)
			}
			g.Frames = append(g.Frames, FrameM{Pkg: pkg, Name: "F", File: p, Line: 10 + k, PCOff: 1, Args: ArgListM{Items: []ArgM{{Val: 1}}}})
		}
		switch gi % 3 {
		case 1:
			// started from a file under no root (generated code, a build directory)
			g.Creator = &CreatorM{Pkg: "main", Name: "spawn", File: "/tmp/go-build55/b001/gen.go", Line: 7, PCOff: 2, Parent: 1}
		case 2:
			g.Creator = &CreatorM{Pkg: "main", Name: "spawn", File: g.Frames[0].File, Line: 7, PCOff: 2, Parent: 1}
		}
		d.Gs = append(d.Gs, g)
	}
	return d
}

func sortedKeys(m map[string]string) []string {
	var k []string
	for x := range m {
		k = append(k, x)
	}
	sort.Strings(k)
	return k
}

// hostInterferes reports whether the machine the check runs on has something at the places the
// dump's remote paths name: the library looks on the local disk for a go.mod above every file
// of the dump (a dump may come from this machine), so a generated remote root like /lib/go/src
// that happens to exist here (a Go installation, "module std") is not the layout that was
// generated. Such cases are outside what the generator controls and are skipped.
func hostInterferes(refs []string, base string) bool {
	for _, r := range refs {
		if !strings.HasPrefix(r, "/") || (base != "" && (strings.HasPrefix(r, base+"/") || strings.HasPrefix(r, topPrefix(base)))) {
			continue
		}
		if hostHas(r) {
			return true
		}
		for d := path.Dir(r); ; d = path.Dir(d) {
			if hostHas(strings.TrimSuffix(d, "/") + "/go.mod") {
				return true
			}
			if d == "/" || d == "." {
				break
			}
		}
	}
	return false
}

var hostSeen sync.Map

func hostHas(p string) bool {
	if v, ok := hostSeen.Load(p); ok {
		return v.(bool)
	}
	_, err := os.Lstat(p)
	hostSeen.Store(p, err == nil)
	return err == nil
}
