package props

import (
	"bytes"
	"fmt"
	"io"
	"os"
	"os/exec"
	"path/filepath"
	"testing"
	"time"

	"github.com/maruel/panicparse/v2/stack"
	"pgregory.net/rapid"
)

// C02 — stream conservation.

// ---- (1) universal law, one call, any input -------------------------------------------

type c02LawCase struct {
	X []byte
}

// conservation checks one ScanSnapshot call on arbitrary bytes: what was forwarded (p) and
// what is handed back (s = suffix ++ unread) are the input minus whole lines that lexically
// belong to a dump. Returns the number of known-finding hits it tolerated.
func conservation(x, p, s []byte, snap *stack.Snapshot, err error) (int, error) {
	if !bytes.HasSuffix(x, s) {
		return 0, fmt.Errorf("remainder (suffix ++ unread) is not a suffix of the input: %s", firstDiffBytes(x[max(0, len(x)-len(s)):], s))
	}
	head := splitLines(x[:len(x)-len(s)])
	pl := splitLines(p)
	// Embed the forwarded lines into the head, in order; everything else was withheld.
	type block struct{ lines [][]byte }
	var blocks []block
	open := false
	j := 0
	for _, l := range head {
		if j < len(pl) && bytes.Equal(l, pl[j]) {
			j++
			open = false
			continue
		}
		if !open {
			blocks = append(blocks, block{})
			open = true
		}
		b := &blocks[len(blocks)-1]
		b.lines = append(b.lines, l)
	}
	if j != len(pl) {
		return 0, fmt.Errorf("forwarded text is not the input minus whole lines: forwarded line %d %q has no counterpart; forwarded=%q", j, pl[j], quoteShort(p))
	}
	hits := 0
	for bi, b := range blocks {
		last := bi == len(blocks)-1
		dumpBlock := last && snap != nil
		sepOnly := true
		for _, l := range b.lines {
			ks := classify(trimEOL(l))
			if !hasKind(ks, kRaceSep, kRaceWarn) {
				sepOnly = false
			}
			if hasKind(ks, kJunk) {
				return hits, fmt.Errorf("a line that is no part of any dump was withheld: %q", l)
			}
		}
		if dumpBlock {
			continue
		}
		// Withheld text that did not end up in a snapshot.
		if err != nil && err != io.EOF && last {
			continue // a malformed dump reported through the error result
		}
		if sepOnly && knownOpen("KF-SEP") {
			hits++
			continue
		}
		return hits, fmt.Errorf("%d line(s) withheld although no snapshot contains them: %q…", len(b.lines), b.lines[0])
	}
	return hits, nil
}

func c02LawOracle(c c02LawCase) error {
	in := bytes.NewReader(c.X)
	var w bytes.Buffer
	opts, _ := variantOpts(c.X)
	snap, suffix, err := stack.ScanSnapshot(in, &w, opts)
	rest, _ := io.ReadAll(in)
	s := append(append([]byte{}, suffix...), rest...)
	hits, e := conservation(c.X, w.Bytes(), s, snap, err)
	if hits > 0 {
		statsFor("C02").excluded(int64(hits))
	}
	return e
}

func genFreeInput(t *rapid.T, maxEdits int) ([]byte, int) {
	o := StreamOpts{MinItems: 0, MaxItems: 3,
		Dump: DumpOpts{MaxG: 4, MaxFrames: 4, Variants: true},
		Race: RaceOpts{MaxOps: 3, MaxFrames: 3, Args: true},
		Junk: JunkOpts{MaxLines: 3, Binary: true}}
	s := genStream(t, o)
	lines := splitLines(s.Bytes())
	if oneIn(t, 6, "pristine") {
		return joinLines(lines), 0
	}
	m, ne := mutateLines(t, lines, maxEdits)
	return joinLines(m), ne
}

var c02Law = Check[c02LawCase]{
	Prop: "C02", Name: "law",
	Gen: func(t *rapid.T) c02LawCase {
		x, _ := genFreeInput(t, 6)
		return c02LawCase{X: x}
	},
	Oracle: c02LawOracle,
	Obs: func(c c02LawCase) Obs {
		return Obs{Nontrivial: false, Classes: []string{"law"}, Sample: nil}
	},
}

// ---- (1b) the same law when the reader fails with a non-EOF error ------------------------

type c02FailCase struct {
	S        StreamM
	Cut      int  // the reader delivers X[:Cut] and then fails
	WithData bool // the error comes together with the last data
	Chunk    int
}

func c02FailOracle(c c02FailCase) error {
	x := c.S.Bytes()
	cut := c.Cut % (len(x) + 1)
	r := &cutReader{data: x, c: cut, err: errInjected, withData: c.WithData, chunk: c.Chunk}
	var w bytes.Buffer
	opts, _ := variantOpts(x)
	snap, suffix, err := stack.ScanSnapshot(r, &w, opts)
	s := append(append([]byte{}, suffix...), x[r.pos:cut]...)
	hits, e := conservation(x[:cut], w.Bytes(), s, snap, err)
	if hits > 0 {
		statsFor("C02").excluded(int64(hits))
	}
	if e != nil {
		return fmt.Errorf("reader fails after %d of %d bytes (with data: %v): %v", cut, len(x), c.WithData, e)
	}
	return nil
}

var c02Fail = Check[c02FailCase]{
	Prop: "C02", Name: "readfail",
	Gen: func(t *rapid.T) c02FailCase {
		s := genStream(t, streamOptsDefault())
		return c02FailCase{S: s, Cut: rapid.IntRange(0, len(s.Bytes())).Draw(t, "cut"), WithData: rapid.Bool().Draw(t, "withData"),
			Chunk: rapid.SampledFrom([]int{0, 0, 1, 7, 100}).Draw(t, "chunk")}
	},
	Oracle: c02FailOracle,
	Obs: func(c c02FailCase) Obs {
		x := c.S.Bytes()
		cut := c.Cut % (len(x) + 1)
		mid := cut > 0 && cut < len(x) && x[cut-1] != '\n'
		cl := []string{"reader_failure"}
		if mid {
			cl = append(cl, "failure_inside_a_line")
		}
		return Obs{Nontrivial: mid, Digest: digestBytes(x, []byte(fmt.Sprint(cut, c.WithData, c.Chunk))), Classes: cl}
	},
}

// ---- (2) ground truth over the whole resume history ------------------------------------

type c02StreamCase struct {
	S StreamM
	D Delivery
}

// streamTruth checks a resume history against the generator's ground truth.
func streamTruth(s *StreamM, h *history, checkSnaps bool) error {
	if h.TimedOut {
		return fmt.Errorf("resume loop did not terminate within %d calls", len(h.Calls))
	}
	want := s.Pre
	k := 0
	var forwarded []byte
	for ci := range h.Calls {
		c := &h.Calls[ci]
		forwarded = append(forwarded, c.Prefix...)
		if c.Snap == nil {
			if c.Err == nil {
				return fmt.Errorf("call %d returned no snapshot and no error", ci)
			}
			continue
		}
		if k >= len(s.Items) {
			return fmt.Errorf("call %d returned an extra snapshot (stream has %d dumps)", ci, len(s.Items))
		}
		if !bytes.Equal(forwarded, want) {
			return fmt.Errorf("text forwarded before dump %d: %s", k, firstDiffBytes(want, forwarded))
		}
		if checkSnaps {
			if e := cmpGoroutines(s.Items[k].expected(), c.Snap.Goroutines); e != nil {
				return fmt.Errorf("dump %d: %v", k, e)
			}
		}
		want = append(append([]byte{}, want...), s.Items[k].After...)
		k++
	}
	if k != len(s.Items) {
		return fmt.Errorf("found %d dumps, stream has %d", k, len(s.Items))
	}
	last := h.Calls[len(h.Calls)-1]
	if last.Err != io.EOF {
		return fmt.Errorf("history ended with error %v", last.Err)
	}
	if got := h.passthrough(); !bytes.Equal(got, s.Junk()) {
		return fmt.Errorf("pass-through text: %s", firstDiffBytes(s.Junk(), got))
	}
	return nil
}

func c02StreamOracle(c c02StreamCase) error {
	opts, loose := variantOpts(c.S.Bytes())
	defer looseFor(loose)()
	h := resumeLoop(c.D.reader(c.S.Bytes()), opts, len(c.S.Items)+3)
	return streamTruth(&c.S, &h, true)
}

func streamObs(s *StreamM) Obs {
	var cl []string
	nt := false
	for i := range s.Items {
		it := &s.Items[i]
		if it.Race != nil {
			cl = append(cl, "race")
			if len(it.After) > 0 {
				cl = append(cl, "race_then_text")
			}
		} else {
			cl = append(cl, "dump")
			if len(it.After) == 0 && i+1 < len(s.Items) && s.Items[i+1].Race != nil {
				cl = append(cl, "report_right_after_dump")
			}
		}
		if bytes.Count(it.After, []byte("\n")) >= 2 {
			nt = true
		}
		if len(it.After) > 16384 {
			cl = append(cl, "junk_gt_16k")
		}
		if bytes.Contains(it.After, []byte("\r\n")) {
			cl = append(cl, "crlf_junk")
		}
	}
	x := s.Bytes()
	if len(x) > 0 && x[len(x)-1] != '\n' {
		cl = append(cl, "no_final_eol")
	}
	if len(s.Items) >= 2 {
		cl = append(cl, "multi_dump")
	}
	if o, _ := variantOpts(x); o.GuessPaths || o.NameArguments {
		cl = append(cl, fmt.Sprintf("scanned_with_naming=%v_guesspaths=%v_analyze=%v", o.NameArguments, o.GuessPaths, o.AnalyzeSources))
	}
	return Obs{Nontrivial: nt && len(s.Items) >= 1, Digest: digestBytes(x), Classes: cl, Sample: quoteShort(x)}
}

func streamOptsDefault() StreamOpts {
	return StreamOpts{MinItems: 0, MaxItems: 4,
		Dump: DumpOpts{MaxG: 5, MaxFrames: 6, Variants: true, LongLines: true},
		Race: RaceOpts{MaxOps: 3, MaxFrames: 4, Args: true},
		Junk: JunkOpts{MaxLines: 5, Binary: true, Long: true}}
}

var c02Stream = Check[c02StreamCase]{
	Prop: "C02", Name: "stream",
	Gen: func(t *rapid.T) c02StreamCase {
		return c02StreamCase{S: genStream(t, streamOptsDefault()), D: genDelivery(t)}
	},
	Oracle: c02StreamOracle,
	Obs: func(c c02StreamCase) Obs {
		o := streamObs(&c.S)
		if c.D.EOFWithData {
			o.Classes = append(o.Classes, "eof_with_data")
		}
		if c.D.Chunk > 0 {
			o.Classes = append(o.Classes, "chunked_delivery")
		}
		o.Digest = digestBytes(c.S.Bytes(), []byte(fmt.Sprint(c.D)))
		return o
	},
}

// ---- (3) end to end through the pp binary ----------------------------------------------

type ppResult struct {
	Out, Err []byte
	Code     int
}

func ppPath() string {
	if p := os.Getenv("VERIF_PP"); p != "" {
		return p
	}
	return "/verif/.build/pp"
}

func runPP(stdin []byte, args ...string) (ppResult, error) {
	cmd := exec.Command(ppPath(), args...)
	cmd.Stdin = bytes.NewReader(stdin)
	var o, e bytes.Buffer
	cmd.Stdout, cmd.Stderr = &o, &e
	cmd.Env = append(os.Environ(), "GOTRACEBACK=all", "TERM=dumb")
	if err := cmd.Start(); err != nil {
		return ppResult{}, fmt.Errorf("HARNESS: cannot start pp: %w", err)
	}
	done := make(chan error, 1)
	go func() { done <- cmd.Wait() }()
	select {
	case err := <-done:
		r := ppResult{Out: o.Bytes(), Err: e.Bytes()}
		if err != nil {
			if ee, ok := err.(*exec.ExitError); ok {
				r.Code = ee.ExitCode()
			} else {
				return r, fmt.Errorf("HARNESS: pp: %w", err)
			}
		}
		return r, nil
	case <-time.After(120 * time.Second):
		_ = cmd.Process.Kill()
		<-done
		return ppResult{Out: o.Bytes(), Err: e.Bytes(), Code: -1}, fmt.Errorf("pp did not finish within 120s")
	}
}

type c02PPCase struct {
	S     StreamM
	Flags []string
	HTML  bool `json:",omitempty"` // -html FILE: renderings go to the file, stdout carries the pass-through text only
	File  bool `json:",omitempty"` // the input is given as a file argument instead of stdin
}

func c02PPOracle(c c02PPCase) error {
	args := append([]string{"-rebase=false"}, c.Flags...)
	if c.HTML {
		hf, err := os.CreateTemp(os.Getenv("VERIF_WORK"), "c02*.html")
		if err != nil {
			return fmt.Errorf("HARNESS: %v", err)
		}
		hf.Close()
		defer os.Remove(hf.Name())
		args = append(args, "-html", hf.Name())
	}
	var whole ppResult
	var err error
	if c.File {
		inf, ferr := os.CreateTemp(os.Getenv("VERIF_WORK"), "c02in*.txt")
		if ferr != nil {
			return fmt.Errorf("HARNESS: %v", ferr)
		}
		inf.Write(c.S.Bytes())
		inf.Close()
		defer os.Remove(inf.Name())
		whole, err = runPP(nil, append(append([]string{}, args...), inf.Name())...)
	} else {
		whole, err = runPP(c.S.Bytes(), args...)
	}
	if err != nil {
		return err
	}
	if whole.Code != 0 {
		return fmt.Errorf("pp exited %d on a well-formed stream; stderr=%q", whole.Code, quoteShort(whole.Err))
	}
	var want bytes.Buffer
	want.Write(c.S.Pre)
	for i := range c.S.Items {
		r, err := runPP(c.S.Items[i].dumpBytes(), args...)
		if err != nil {
			return err
		}
		if r.Code != 0 {
			return fmt.Errorf("pp exited %d on dump %d alone; stderr=%q", r.Code, i, quoteShort(r.Err))
		}
		want.Write(r.Out)
		want.Write(c.S.Items[i].After)
	}
	if !bytes.Equal(want.Bytes(), whole.Out) {
		return fmt.Errorf("pp output is not its input with each dump replaced by its rendering: %s", firstDiffBytes(want.Bytes(), whole.Out))
	}
	// "When it exits 0 its output is its input ...": with a standard output that accepts
	// nothing, a stream that has output cannot end in exit 0.
	if len(whole.Out) > 0 && !c.File && digestBytes(c.S.Bytes())%3 == 0 {
		if full, ferr := os.OpenFile("/dev/full", os.O_WRONLY, 0); ferr == nil {
			defer full.Close()
			cmd := exec.Command(ppPath(), args...)
			cmd.Stdin = bytes.NewReader(c.S.Bytes())
			cmd.Stdout = full
			var e bytes.Buffer
			cmd.Stderr = &e
			cmd.Env = append(os.Environ(), "GOTRACEBACK=all", "TERM=dumb")
			rerr := cmd.Run()
			if _, isExit := rerr.(*exec.ExitError); rerr != nil && !isExit {
				return fmt.Errorf("HARNESS: pp: %v", rerr)
			}
			if rerr == nil {
				return fmt.Errorf("pp exited 0 although its standard output accepts no byte (/dev/full) and %d bytes of output were due; stderr=%q", len(whole.Out), quoteShort(e.Bytes()))
			}
			statsFor("C02").class("pp_with_failing_stdout", 1)
		}
	}
	// The same for the other output channel: a rendering that cannot be written to the -html
	// file (its directory does not exist) while the stream holds a dump.
	if len(c.S.Items) > 0 && !c.File && digestBytes(c.S.Bytes())%3 == 1 {
		r, rerr := runPP(c.S.Bytes(), append(append([]string{}, c.Flags...), "-rebase=false", "-html", filepath.Join(os.Getenv("VERIF_WORK"), "no-such-dir", "out.html"))...)
		if rerr != nil {
			return rerr
		}
		if r.Code == 0 {
			return fmt.Errorf("pp exited 0 although the rendering of %d dump(s) could not be written to the -html file (directory missing); stderr=%q", len(c.S.Items), quoteShort(r.Err))
		}
		statsFor("C02").class("pp_with_unwritable_html_file", 1)
	}
	return nil
}

var c02PP = Check[c02PPCase]{
	Prop: "C02", Name: "pp",
	Gen: func(t *rapid.T) c02PPCase {
		o := streamOptsDefault()
		o.MaxItems = 3
		c := c02PPCase{S: genStream(t, o)}
		c.Flags = rapid.SampledFrom([][]string{{"-no-color"}, {"-force-color"}, {"-no-color", "-aggressive"}, {"-no-color", "-full-path"}, {"-no-color", "-parse=false"}}).Draw(t, "flags")
		c.HTML = oneIn(t, 5, "html")
		c.File = oneIn(t, 4, "fileArg")
		return c
	},
	Oracle: c02PPOracle,
	Obs: func(c c02PPCase) Obs {
		o := streamObs(&c.S)
		o.Classes = append(o.Classes, "pp")
		o.Digest = digestBytes(c.S.Bytes(), []byte(fmt.Sprint(c.Flags, c.HTML, c.File)))
		return o
	},
}

func init() {
	register(c02Law.key(), c02Law.Oracle)
	register(c02Stream.key(), c02Stream.Oracle)
	register(c02PP.key(), c02PP.Oracle)
	register(c02Fail.key(), c02Fail.Oracle)
}

func TestC02(t *testing.T) {
	a := c02Stream
	a.Checks = n(1500, 30000)
	a.Run(t)
	b := c02Law
	b.Checks = n(2500, 50000)
	b.Run(t)
	d := c02Fail
	d.Checks = n(1500, 30000)
	d.Run(t)
	c := c02PP
	c.Checks = n(60, 1500)
	c.Run(t)
}
