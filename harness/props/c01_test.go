package props

import (
	"bytes"
	"fmt"
	"io"
	"testing"

	"github.com/maruel/panicparse/v2/stack"
	"pgregory.net/rapid"
)

// C01 — goroutine dump parse fidelity: the parse of a dump printed by the traceback model
// equals the model's ground truth.

type c01Case struct {
	S StreamM // exactly one goroutine dump surrounded by inert junk
}

func c01Oracle(c c01Case) error {
	it := &c.S.Items[0]
	x := c.S.Bytes()
	in := bytes.NewReader(x)
	var prefix bytes.Buffer
	snap, suffix, err := stack.ScanSnapshot(in, &prefix, plainOpts())
	if err != nil && err != io.EOF {
		return fmt.Errorf("unexpected error: %v", err)
	}
	if snap == nil {
		return fmt.Errorf("no snapshot found (err=%v)", err)
	}
	if e := cmpGoroutines(it.expected(), snap.Goroutines); e != nil {
		return e
	}
	if e := ptrConsistency(snap.Goroutines); e != nil {
		return e
	}
	if !bytes.Equal(prefix.Bytes(), c.S.Pre) {
		return fmt.Errorf("text before the dump: %s", firstDiffBytes(c.S.Pre, prefix.Bytes()))
	}
	rest, _ := io.ReadAll(in)
	if got := append(append([]byte{}, suffix...), rest...); !bytes.Equal(got, it.After) {
		return fmt.Errorf("text after the dump: %s", firstDiffBytes(it.After, got))
	}
	return nil
}

func c01Obs(c c01Case) Obs {
	d := c.S.Items[0].Dump
	fs := d.features()
	cl := append([]string{}, fs...)
	if len(d.Gs) >= 2 {
		cl = append(cl, "multi")
	}
	return Obs{Nontrivial: len(d.Gs) >= 2 && len(fs) >= 2, Digest: digestBytes(c.S.Bytes()), Classes: cl, Sample: string(truncBytes(c.S.Bytes(), 1200))}
}

func truncBytes(b []byte, n int) []byte {
	if len(b) > n {
		return append(append([]byte{}, b[:n]...), "…"...)
	}
	return b
}

var c01Dump = Check[c01Case]{
	Prop: "C01", Name: "model",
	Gen: func(t *rapid.T) c01Case {
		o := StreamOpts{MinItems: 1, MaxItems: 1, NoRace: true,
			Dump: DumpOpts{MaxG: 40, MaxFrames: 150, Variants: true, LongLines: true},
			Junk: JunkOpts{MaxLines: 4, Binary: true}}
		return c01Case{S: genStream(t, o)}
	},
	Oracle: c01Oracle,
	Obs:    c01Obs,
}

func init() { register(c01Dump.key(), c01Dump.Oracle) }

func TestC01(t *testing.T) {
	c := c01Dump
	c.Checks = n(4000, 40000)
	c.Run(t)
}
