package props

import (
	"bytes"
	"fmt"
	"io"
	"reflect"
	"runtime"
	"strings"
	"testing"
	"time"

	"github.com/maruel/panicparse/v2/stack"
	"pgregory.net/rapid"
)

// C01 — goroutine dump parse fidelity: the parse of a dump printed by the traceback model
// equals the model's ground truth.

type c01Case struct {
	S StreamM  // exactly one goroutine dump surrounded by inert junk
	D Delivery `json:",omitempty"` // how the reader hands the bytes over (chunks, EOF with the last data)
}

func c01Oracle(c c01Case) error {
	it := &c.S.Items[0]
	x := c.S.Bytes()
	in := c.D.reader(x)
	var prefix bytes.Buffer
	snap, suffix, err := stack.ScanSnapshot(in, &prefix, plainOpts())
	if err != nil && err != io.EOF {
		return fmt.Errorf("unexpected error: %v", err)
	}
	if snap == nil {
		return fmt.Errorf("no snapshot found (err=%v)", err)
	}
	if e := cmpGoroutines(it.expected(), snap.Goroutines); e != nil {
		return e
	}
	if e := ptrConsistency(snap.Goroutines); e != nil {
		return e
	}
	if e := funcFlagsConsistent(snap.Goroutines); e != nil {
		return e
	}
	if !bytes.Equal(prefix.Bytes(), c.S.Pre) {
		return fmt.Errorf("text before the dump: %s", firstDiffBytes(c.S.Pre, prefix.Bytes()))
	}
	rest, _ := io.ReadAll(in)
	if got := append(append([]byte{}, suffix...), rest...); !bytes.Equal(got, it.After) {
		return fmt.Errorf("text after the dump: %s", firstDiffBytes(it.After, got))
	}
	// The same dump with every option on: what the dump itself says must come out the same.
	// (Path guessing probes the disk for every path element: sampled, and not for the huge
	// paths that exist to cross the read buffer.)
	if len(x) > 12000 || digestBytes(x)%4 != 0 {
		return nil
	}
	full, _, err := stack.ScanSnapshot(bytes.NewReader(x), io.Discard, &stack.Opts{NameArguments: true, GuessPaths: true, AnalyzeSources: true, LocalGOROOT: runtime.GOROOT()})
	if full == nil || (err != nil && err != io.EOF) {
		return fmt.Errorf("with naming, path guessing and source analysis on: snapshot=%v err=%v", full != nil, err)
	}
	cmpLoose = true
	e := cmpGoroutines(it.expected(), full.Goroutines)
	cmpLoose = false
	if e != nil {
		return fmt.Errorf("with naming, path guessing and source analysis on: %v", e)
	}
	return nil
}

func c01Obs(c c01Case) Obs {
	d := c.S.Items[0].Dump
	fs := d.features()
	cl := append([]string{}, fs...)
	if len(d.Gs) >= 2 {
		cl = append(cl, "multi")
	}
	return Obs{Nontrivial: len(d.Gs) >= 2 && len(fs) >= 2, Digest: digestBytes(c.S.Bytes()), Classes: cl, Sample: string(truncBytes(c.S.Bytes(), 1200))}
}

func truncBytes(b []byte, n int) []byte {
	if len(b) > n {
		return append(append([]byte{}, b[:n]...), "…"...)
	}
	return b
}

var c01Dump = Check[c01Case]{
	Prop: "C01", Name: "model",
	Gen: func(t *rapid.T) c01Case {
		o := StreamOpts{MinItems: 1, MaxItems: 1, NoRace: true,
			Dump: DumpOpts{MaxG: 40, MaxFrames: 150, Variants: true, LongLines: true, FreeInacc: true},
			Junk: JunkOpts{MaxLines: 4, Binary: true}}
		return c01Case{S: genStream(t, o), D: genDelivery(t)}
	},
	Oracle: c01Oracle,
	Obs:    c01Obs,
}

func init() {
	register(c01Dump.key(), c01Dump.Oracle)
	// a live dump has no input to replay: the replay re-runs a few live rounds
	register("C01/live", func(m map[string]any) error {
		var err error
		func() {
			w := newWorkload(1)
			defer w.shutdown()
			_, _, err = c20Library(w)
		}()
		return err
	})
}

// c01Live: dumps produced by the live runtime for goroutines with known stacks. The workload
// of C20 parks registered goroutines in known functions; here the runtime's own dump of them
// must parse into exactly those goroutines (state, parked frame with file and line obtained
// independently through runtime.FuncForPC, lock flag, elision marker, creator and parent id).
func c01Live(t *testing.T, rounds int) {
	st := statsFor("C01")
	w := newWorkload(2)
	defer w.shutdown()
	w.churn(2, 12)
	lines := map[string]int{}
	for name, f := range map[string]any{"parkRecv": parkRecv, "parkSend": parkSend, "parkMutex": parkMutex} {
		pc := reflect.ValueOf(f).Pointer()
		_, line := runtime.FuncForPC(pc).FileLine(pc)
		lines[name] = line
	}
	for r := 0; r < rounds; r++ {
		err := guard(func() error {
			if _, _, err := c20Library(w); err != nil {
				return err
			}
			// line numbers of the single-line parking functions
			buf := make([]byte, 16<<20)
			buf = buf[:runtime.Stack(buf, true)]
			snap, _, _ := stack.ScanSnapshot(bytes.NewReader(buf), io.Discard, plainOpts())
			if snap == nil {
				return fmt.Errorf("no snapshot in the live dump")
			}
			for _, g := range snap.Goroutines {
				for i := range g.Stack.Calls {
					c := &g.Stack.Calls[i]
					if want, ok := lines[c.Func.Name]; ok && strings.HasSuffix(c.Func.ImportPath, "harness/props") && c.Line != want {
						return fmt.Errorf("goroutine %d: frame %s is at line %d of %s, the parser says %d", g.ID, c.Func.Name, want, c.SrcName, c.Line)
					}
				}
			}
			return nil
		})
		if err != nil {
			st.markFailed()
			p := saveReplay("C01", "C01/live", map[string]any{"round": r}, err)
			t.Fatalf("property C01 violated (C01/live): %v\nreplay=%s", err, p)
		}
		st.count(1, 1)
		time.Sleep(3 * time.Millisecond)
	}
	st.class("live_runtime_dumps", int64(rounds))
}

func TestC01(t *testing.T) {
	c := c01Dump
	c.Checks = n(4000, 40000)
	c.Run(t)
	if cfg.Shard == 0 {
		c01Live(t, n(20, 300))
	}
}
