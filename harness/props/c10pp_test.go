package props

// C10/pp: the command renders what scanning returns for a stream that ends early. For cut
// points inside a generated dump, pp's console output must account for exactly as many
// goroutines as ScanSnapshot returns for the same bytes (which C10/cuts ties to the
// goroutines lying before the cut) - also when the scan ends with a parse error about the
// goroutine that was cut.

import (
	"bytes"
	"fmt"
	"io"
	"regexp"
	"strconv"

	"github.com/maruel/panicparse/v2/stack"
	"pgregory.net/rapid"
)

type c10PPCase struct {
	D    DumpM
	Cuts []int // reduced modulo the length of the dump
}

var reBucketHeader = regexp.MustCompile(`(?m)^(\d+): `)

func c10PPOracle(c c10PPCase) error {
	x := c.D.Print()
	st := statsFor("C10")
	for _, cc := range c.Cuts {
		cut := cc % (len(x) + 1)
		in := x[:cut]
		snap, _, err := stack.ScanSnapshot(bytes.NewReader(in), io.Discard, plainOpts())
		want := 0
		if snap != nil {
			want = len(snap.Goroutines)
		}
		r, perr := runPP(in, "-no-color", "-rebase=false")
		if perr != nil {
			return perr
		}
		got := 0
		for _, m := range reBucketHeader.FindAllSubmatch(r.Out, -1) {
			k, _ := strconv.Atoi(string(m[1]))
			got += k
		}
		if got != want {
			return fmt.Errorf("dump cut at byte %d of %d: scanning returns %d goroutines (err=%v) but pp's output accounts for %d (exit %d, stderr %q)\nstdout: %s", cut, len(x), want, err, got, r.Code, quoteShort(r.Err), quoteShort(truncBytes(r.Out, 900)))
		}
		if want > 0 && err != nil && err != io.EOF {
			st.count(1, 1)
			st.class("pp_on_a_cut_ending_in_a_parse_error", 1)
		} else {
			st.count(1, 0)
		}
	}
	return nil
}

var c10PP = Check[c10PPCase]{
	Prop: "C10", Name: "pp",
	Gen: func(t *rapid.T) c10PPCase {
		d := genDump(t, DumpOpts{MinG: 2, TypicalG: 4, MaxG: 6, MaxFrames: 4, PlainNames: true, NoUnavail: true})
		c := c10PPCase{D: d}
		for i, k := 0, rapid.IntRange(2, 5).Draw(t, "ncuts"); i < k; i++ {
			c.Cuts = append(c.Cuts, rapid.IntRange(0, 1<<20).Draw(t, "cut"))
		}
		return c
	},
	Oracle: c10PPOracle,
	Obs: func(c c10PPCase) Obs {
		return Obs{Nontrivial: false, Classes: []string{"pp_cut_sessions"}, Sample: map[string]any{"dump": quoteShort(truncBytes(c.D.Print(), 500)), "cuts": c.Cuts}}
	},
}

func init() { register(c10PP.key(), c10PP.Oracle) }
