package props

import (
	"fmt"
	"testing"

	"github.com/maruel/panicparse/v2/stack"
	"pgregory.net/rapid"
)

// C13 — bucket ordering contract. Black box: the comparator is recovered from the observable
// order of Aggregate's buckets.

type frameSpec struct {
	Loc  stack.Location
	Main bool
	Fn   string
	Dir  string // DirSrc, e.g. "d/x.go"
	Line int
	Arg  uint64 // 0: no argument; otherwise one scalar argument (invisible to the ordering)
}

type sigSpec struct {
	Frames  []frameSpec
	Locked  bool
	State   string
	Members int
	PathID  int    // signatures with the same non-zero PathID share their source paths (equal stacks when frames and arguments agree)
	Creator string // "": no "created by"; otherwise the creator function
}

func (s sigSpec) String() string {
	out := fmt.Sprintf("%s", s.State)
	if s.Locked {
		out += ",locked"
	}
	if s.Creator != "" {
		out += ",created by " + s.Creator
	}
	out += fmt.Sprintf(",n=%d", s.Members)
	for _, f := range s.Frames {
		m := ""
		if f.Main {
			m = "/main"
		}
		out += fmt.Sprintf(" [%s%s %s %s:%d arg=%d]", f.Loc, m, f.Fn, f.Dir, f.Line, f.Arg)
	}
	return out
}

// goroutinesOf builds the member goroutines of signature u (index uniq keeps signatures of
// different universe entries dissimilar without being visible to the ordering).
// c13Level is the similarity level the ordering is observed at: ExactFlags (every member its
// own signature) or AnyPointer (members of one signature carry different pointer arguments and
// are merged into one bucket, so the bucket's signature is a merged one).
func goroutinesOf(s sigSpec, uniq int, firstID int, lvl stack.Similarity) []*stack.Goroutine {
	var out []*stack.Goroutine
	if s.PathID != 0 {
		uniq = s.PathID
	}
	for m := 0; m < s.Members; m++ {
		g := &stack.Goroutine{ID: firstID + m}
		g.State = s.State
		g.Locked = s.Locked
		for _, f := range s.Frames {
			pkg := "example.com/pkg"
			if f.Line%2 == 1 {
				// a package that merely lives in a directory named main is not package main
				pkg = "example.com/tools/main"
			}
			if f.Main {
				pkg = "main"
			}
			var c stack.Call
			if err := c.Func.Init(pkg + "." + f.Fn); err != nil {
				panic("HARNESS: " + err.Error())
			}
			if f.Dir == "" {
				// a short source path: no directory element, DirSrc stays empty
				c.RemoteSrcPath = fmt.Sprintf("/u%dx.go", uniq)
				c.SrcName = c.RemoteSrcPath[1:]
			} else {
				c.RemoteSrcPath = fmt.Sprintf("/u%d/%s", uniq, f.Dir)
				c.DirSrc = f.Dir
				c.SrcName = f.Dir[len(f.Dir)-4:]
			}
			c.Line = f.Line
			c.ImportPath = c.Func.ImportPath
			c.Location = f.Loc
			if f.Arg != 0 {
				c.Args.Values = []stack.Arg{{Value: f.Arg}}
			}
			if lvl == stack.AnyPointer && s.Members > 1 {
				// members differ in a pointer: merged at AnyPointer, apart at ExactFlags
				c.Args.Values = append(c.Args.Values, stack.Arg{Value: 0xc000000000 + uint64(m)*8, IsPtr: true})
			}
			g.Stack.Calls = append(g.Stack.Calls, c)
		}
		if s.Creator != "" {
			var c stack.Call
			if err := c.Func.Init("main." + s.Creator); err != nil {
				panic("HARNESS: " + err.Error())
			}
			c.RemoteSrcPath, c.DirSrc, c.SrcName, c.Line, c.ImportPath = "/creators/d/s.go", "d/s.go", "s.go", 5, "main"
			g.CreatedBy.Calls = []stack.Call{c}
		}
		out = append(out, g)
	}
	return out
}

func c13Universe(size int, lvl stack.Similarity) []sigSpec {
	type lm struct {
		l stack.Location
		m bool
	}
	combos := []lm{{stack.LocationUnknown, false}, {stack.GoMod, false}, {stack.GOPATH, false}, {stack.GoPkg, false}, {stack.Stdlib, false},
		{stack.LocationUnknown, true}, {stack.GoMod, true}, {stack.Stdlib, true}}
	fr := func(c lm) frameSpec { return frameSpec{Loc: c.l, Main: c.m, Fn: "Fn", Dir: "d/x.go", Line: 10} }
	var u []sigSpec
	add := func(s sigSpec) {
		if lvl != stack.ExactFlags && s.PathID != 0 && s.Locked {
			// the lock flag separates goroutines at ExactFlags only: with shared paths a locked
			// twin would be the same bucket as the unlocked one at the coarser levels
			return
		}
		if s.State == "" {
			s.State = "select"
		}
		if s.Members == 0 {
			s.Members = 1
		}
		u = append(u, s)
	}
	for _, c := range combos {
		add(sigSpec{Frames: []frameSpec{fr(c)}})
	}
	k := 0
	for i, a := range combos {
		for j, b := range combos {
			if (i*8+j)%3 == 0 {
				add(sigSpec{Frames: []frameSpec{fr(a), fr(b)}})
			}
		}
	}
	for i, a := range combos {
		for j, b := range combos {
			for l, c := range combos {
				k++
				if (i*64+j*8+l)%37 == 0 {
					add(sigSpec{Frames: []frameSpec{fr(a), fr(b), fr(c)}})
				}
			}
		}
	}
	// attribute variants on two bases
	for _, base := range [][]frameSpec{{fr(combos[4])}, {fr(combos[1]), fr(combos[4])}} {
		mod := func(f func(s *sigSpec)) {
			s := sigSpec{Frames: append([]frameSpec{}, base...)}
			f(&s)
			add(s)
		}
		mod(func(s *sigSpec) { s.Frames[0].Fn = "Ab" })
		mod(func(s *sigSpec) { s.Frames[0].Dir = "c/x.go" })
		mod(func(s *sigSpec) { s.Frames[0].Line = 9 })
		mod(func(s *sigSpec) { s.Frames[len(s.Frames)-1].Line = 11 })
		mod(func(s *sigSpec) { s.Locked = true })
		mod(func(s *sigSpec) { s.State = "chan send" })
		mod(func(s *sigSpec) { s.Members = 2 })
		mod(func(s *sigSpec) { s.Members = 3 })
		mod(func(s *sigSpec) {}) // an exact tie with the plain entry
	}
	// cross products on a single standard-library frame: lock x state x line, and
	// DirSrc (empty for short source paths) x line - orders that only break when two
	// attributes interact (both locked; empty DirSrc against two non-empty ones).
	for _, locked := range []bool{false, true} {
		for _, state := range []string{"chan send", "select"} {
			for _, line := range []int{9, 10} {
				add(sigSpec{Frames: []frameSpec{{Loc: stack.Stdlib, Fn: "Fn", Dir: "d/x.go", Line: line}}, Locked: locked, State: state})
			}
		}
	}
	// same frame, different argument values (different buckets, equal under every ordering key
	// except state/lock)
	for _, arg := range []uint64{1, 2} {
		for _, state := range []string{"chan send", "select"} {
			for _, locked := range []bool{false, true} {
				add(sigSpec{Frames: []frameSpec{{Loc: stack.GoMod, Fn: "Qq", Dir: "d/x.go", Line: 10, Arg: arg}}, Locked: locked, State: state, PathID: 100000})
			}
		}
	}
	// the same stack created by nobody, by spawnA and by spawnB (the creator separates buckets
	// but is no ordering key)
	for _, cr := range []string{"", "spawnA", "spawnB"} {
		add(sigSpec{Frames: []frameSpec{{Loc: stack.GoPkg, Fn: "Cc", Dir: "d/x.go", Line: 10}}, Creator: cr, PathID: 100001})
	}
	for _, dir := range []string{"", "a/x.go", "b/x.go"} {
		for _, line := range []int{1, 2, 3} {
			add(sigSpec{Frames: []frameSpec{{Loc: stack.GOPATH, Fn: "Zz", Dir: dir, Line: line}}})
		}
	}
	// two frames sharing function and file, with the lines, the functions or the files ordered
	// one way in the first frame and the other way in the second: the first difference decides
	for _, v := range [][2]frameSpec{
		{{Loc: stack.Stdlib, Fn: "Wt", Dir: "d/w.go", Line: 30}, {Loc: stack.Stdlib, Fn: "Rn", Dir: "d/w.go", Line: 12}},
		{{Loc: stack.Stdlib, Fn: "Wt", Dir: "d/w.go", Line: 20}, {Loc: stack.Stdlib, Fn: "Rn", Dir: "d/w.go", Line: 15}},
		{{Loc: stack.Stdlib, Fn: "Wb", Dir: "d/w.go", Line: 20}, {Loc: stack.Stdlib, Fn: "Ra", Dir: "d/w.go", Line: 15}},
		{{Loc: stack.Stdlib, Fn: "Wt", Dir: "e/w.go", Line: 20}, {Loc: stack.Stdlib, Fn: "Rn", Dir: "c/w.go", Line: 15}},
	} {
		add(sigSpec{Frames: []frameSpec{v[0], v[1]}})
	}
	// function names differing only by case, and one sorting between them: equality and order
	// of names must be the same relation
	for _, v := range []frameSpec{
		{Loc: stack.Stdlib, Fn: "Parse", Dir: "d/p.go", Line: 50},
		{Loc: stack.Stdlib, Fn: "parse", Dir: "d/p.go", Line: 10},
		{Loc: stack.Stdlib, Fn: "Run", Dir: "d/p.go", Line: 10},
		{Loc: stack.Stdlib, Fn: "PARSE", Dir: "d/p.go", Line: 30},
	} {
		add(sigSpec{Frames: []frameSpec{v}})
	}
	if size > len(u) {
		// thorough: more depth-3 and attribute combinations
		for i := 0; len(u) < size; i++ {
			a, b, c := combos[i%8], combos[(i/8)%8], combos[(i*5+3)%8]
			s := sigSpec{Frames: []frameSpec{fr(a), fr(b), fr(c)}, Locked: i%3 == 0, Members: 1 + i%3}
			s.Frames[i%3].Line = 10 + i%2
			s.Frames[(i+1)%3].Fn = []string{"Fn", "Ab", "zz"}[i%3]
			if i%4 == 0 {
				s.State = "chan send"
			}
			add(s)
		}
	}
	return u
}

// relation: -1 a before b whatever the arrival order, +1 b before a, 0 tied (arrival order kept)
func c13Relation(u []sigSpec, a, b int, reps int, lvl stack.Similarity) (int, error) {
	aFirstAll, bFirstAll, arrivalKept := true, true, true
	for r := 0; r < reps; r++ {
		for _, order := range [][2]int{{a, b}, {b, a}} {
			for _, idsUp := range []bool{true, false} {
				s := &stack.Snapshot{}
				id1, id2 := 10, 20
				if !idsUp {
					id1, id2 = 20, 10
				}
				s.Goroutines = append(s.Goroutines, goroutinesOf(u[order[0]], order[0], id1, lvl)...)
				s.Goroutines = append(s.Goroutines, goroutinesOf(u[order[1]], order[1], id2, lvl)...)
				ag := s.Aggregate(lvl)
				if len(ag.Buckets) != 2 {
					return 0, fmt.Errorf("signatures %d and %d should be two buckets, got %d", a, b, len(ag.Buckets))
				}
				firstIsA := ag.Buckets[0].IDs[0] == map[bool]int{true: id1, false: id2}[order[0] == a]
				if firstIsA {
					bFirstAll = false
				} else {
					aFirstAll = false
				}
				if firstIsA != (order[0] == a) {
					arrivalKept = false
				}
			}
		}
	}
	switch {
	case aFirstAll:
		return -1, nil
	case bFirstAll:
		return 1, nil
	case arrivalKept:
		return 0, nil // a tie: the stable sort keeps the arrival order
	}
	return 0, fmt.Errorf("the order of two buckets is neither fixed nor the arrival order (comparison not asymmetric, or not deterministic):\n A=%v\n B=%v", u[a], u[b])
}

func hasMainOrNonStd(s sigSpec) bool {
	for _, f := range s.Frames {
		if f.Main || f.Loc == stack.GoMod || f.Loc == stack.GOPATH || f.Loc == stack.GoPkg {
			return true
		}
	}
	return false
}

func allStdNonMain(s sigSpec) bool {
	for _, f := range s.Frames {
		if f.Main || f.Loc != stack.Stdlib {
			return false
		}
	}
	return true
}

func mainCount(s sigSpec) int {
	n := 0
	for _, f := range s.Frames {
		if f.Main {
			n++
		}
	}
	return n
}

type c13TripleCase struct {
	Size    int
	A, B, C int
	Level   int // 0 ExactFlags, 2 AnyPointer
}

func c13Laws(u []sigSpec, rel func(a, b int) (int, error), a, b, c int) error {
	ab, err := rel(a, b)
	if err != nil {
		return err
	}
	bc, err := rel(b, c)
	if err != nil {
		return err
	}
	ac, err := rel(a, c)
	if err != nil {
		return err
	}
	if ab == -1 && bc == -1 && ac != -1 {
		return fmt.Errorf("not transitive: A before B, B before C, but A vs C = %d\n A=%v\n B=%v\n C=%v", ac, u[a], u[b], u[c])
	}
	if ab == 0 && bc == 0 && ac != 0 {
		return fmt.Errorf("incomparability not transitive: A~B, B~C, but A vs C = %d\n A=%v\n B=%v\n C=%v", ac, u[a], u[b], u[c])
	}
	return nil
}

func c13PairContract(u []sigSpec, a, b, r int) error {
	// r is rel(a,b)
	if mainCount(u[a]) > mainCount(u[b]) && r != -1 {
		return fmt.Errorf("a bucket with more package-main frames must come first:\n A=%v\n B=%v (relation %d)", u[a], u[b], r)
	}
	if allStdNonMain(u[b]) && hasMainOrNonStd(u[a]) && r != -1 {
		return fmt.Errorf("an all-standard-library bucket must come after a bucket with main/module/GOPATH/module-cache code:\n A=%v\n B=%v (relation %d)", u[a], u[b], r)
	}
	return nil
}

var c13Triple = Check[c13TripleCase]{
	Prop: "C13", Name: "triple",
	Oracle: func(c c13TripleCase) error {
		lvl := stack.Similarity(c.Level)
		u := c13Universe(c.Size, lvl)
		rel := func(a, b int) (int, error) {
			if a == b {
				return 0, nil
			}
			return c13Relation(u, a, b, 8, lvl)
		}
		if err := c13Laws(u, rel, c.A, c.B, c.C); err != nil {
			return err
		}
		for _, p := range [][2]int{{c.A, c.B}, {c.B, c.A}, {c.B, c.C}, {c.C, c.B}, {c.A, c.C}, {c.C, c.A}} {
			if p[0] == p[1] {
				continue
			}
			r, err := rel(p[0], p[1])
			if err != nil {
				return err
			}
			if err := c13PairContract(u, p[0], p[1], r); err != nil {
				return err
			}
		}
		return nil
	},
}

// ---- aggregated sets -------------------------------------------------------------------------

type c13SetCase struct {
	Size        int
	Order       []int // universe indexes in arrival order
	First       int   // position in Order of the bucket holding the First goroutine; -1 none
	FirstMember int   // which member of that bucket is the First goroutine
	Level       int   // 0 ExactFlags, 2 AnyPointer
}

func c13SetOracle(c c13SetCase) error {
	lvl := stack.Similarity(c.Level)
	u := c13Universe(c.Size, lvl)
	s := &stack.Snapshot{}
	idOf := map[int]int{} // first id of member goroutines -> universe index
	for i, k := range c.Order {
		gs := goroutinesOf(u[k], k, 100*(i+1), lvl)
		if i == c.First {
			gs[c.FirstMember%len(gs)].First = true
		}
		idOf[gs[0].ID] = k
		s.Goroutines = append(s.Goroutines, gs...)
	}
	ag := s.Aggregate(lvl)
	if len(ag.Buckets) != len(c.Order) {
		return fmt.Errorf("%d signatures gave %d buckets", len(c.Order), len(ag.Buckets))
	}
	var emitted []int
	for bi, b := range ag.Buckets {
		k, ok := idOf[b.IDs[0]]
		if !ok {
			return fmt.Errorf("bucket %d: unexpected ids %v", bi, b.IDs)
		}
		emitted = append(emitted, k)
		if b.First != (c.First >= 0 && k == c.Order[c.First]) {
			return fmt.Errorf("bucket %d First=%v", bi, b.First)
		}
		if b.First && bi != 0 {
			return fmt.Errorf("the bucket holding the first goroutine is at index %d, not 0", bi)
		}
	}
	for i := 0; i < len(emitted); i++ {
		for j := i + 1; j < len(emitted); j++ {
			a, b := emitted[i], emitted[j]
			if c.First >= 0 && (a == c.Order[c.First] || b == c.Order[c.First]) {
				continue
			}
			var r int
			err := guard(func() error {
				var e error
				r, e = c13Relation(u, a, b, 1, lvl)
				return e
			})
			if err != nil {
				return err
			}
			if r == 1 {
				// re-verify before reporting: a random tie must not look like an inversion
				if r2, _ := c13Relation(u, a, b, 32, lvl); r2 == 1 {
					return fmt.Errorf("in a set of %d buckets signature %d is emitted before %d, but alone %d always precedes %d:\n %v\n %v", len(emitted), a, b, b, a, u[a], u[b])
				}
			}
		}
	}
	return nil
}

var c13Set = Check[c13SetCase]{
	Prop: "C13", Name: "set",
	Gen: func(t *rapid.T) c13SetCase {
		size := n(0, 150)
		level := rapid.SampledFrom([]int{0, 2}).Draw(t, "level")
		u := c13Universe(size, stack.Similarity(level))
		k := rapid.IntRange(4, 12).Draw(t, "setSize")
		idx := make([]int, len(u))
		for i := range idx {
			idx[i] = i
		}
		perm := rapid.Permutation(idx).Draw(t, "members")
		return c13SetCase{Size: size, Order: perm[:k], First: rapid.IntRange(-1, k-1).Draw(t, "first"), FirstMember: rapid.IntRange(0, 2).Draw(t, "firstMember"), Level: level}
	},
	Oracle: c13SetOracle,
	Obs: func(c c13SetCase) Obs {
		u := c13Universe(c.Size, stack.Similarity(c.Level))
		std, other := false, false
		for _, k := range c.Order {
			if allStdNonMain(u[k]) {
				std = true
			} else if hasMainOrNonStd(u[k]) {
				other = true
			}
		}
		return Obs{Nontrivial: std && other, Digest: digestOf(c), Classes: []string{"set"}, Sample: c}
	},
}

func init() {
	register(c13Triple.key(), c13Triple.Oracle)
	register(c13Set.key(), c13Set.Oracle)
}

func TestC13(t *testing.T) {
	for _, lvl := range []stack.Similarity{stack.ExactFlags, stack.AnyPointer} {
		c13Triples(t, lvl)
	}
	a := c13Set
	a.Checks = n(1500, 20000)
	a.Run(t)
}

func c13Triples(t *testing.T, lvl stack.Similarity) {
	st := statsFor("C13")
	size := n(0, 150)
	u := c13Universe(size, lvl)
	nu := len(u)
	// Pair relation matrix.
	rel := make([][]int, nu)
	for a := 0; a < nu; a++ {
		rel[a] = make([]int, nu)
	}
	for a := 0; a < nu; a++ {
		for b := a + 1; b < nu; b++ {
			r, err := c13Relation(u, a, b, 1, lvl)
			if err != nil {
				c13Triple.Each(t, c13TripleCase{Size: size, A: a, B: b, C: b, Level: int(lvl)})
				t.Fatal(err)
			}
			rel[a][b], rel[b][a] = r, -r
			for _, p := range [][2]int{{a, b}, {b, a}} {
				if err := c13PairContract(u, p[0], p[1], rel[p[0]][p[1]]); err != nil {
					c13Triple.Each(t, c13TripleCase{Size: size, A: p[0], B: p[1], C: p[1], Level: int(lvl)})
				}
			}
		}
	}
	var cnt, nt int64
	idx := 0
	for a := 0; a < nu; a++ {
		for b := 0; b < nu; b++ {
			for c := 0; c < nu; c++ {
				idx++
				if !shardOwns(idx) {
					continue
				}
				cnt++
				strict := rel[a][b] != 0 || rel[b][c] != 0 || rel[a][c] != 0
				tied := a != b && rel[a][b] == 0 || b != c && rel[b][c] == 0 || a != c && rel[a][c] == 0
				if strict && tied {
					nt++
				}
				bad := rel[a][b] == -1 && rel[b][c] == -1 && rel[a][c] != -1 || rel[a][b] == 0 && rel[b][c] == 0 && rel[a][c] != 0
				if bad {
					// confirm on the triple itself with repetitions, then report
					if !c13Triple.Each(t, c13TripleCase{Size: size, A: a, B: b, C: c, Level: int(lvl)}) {
						return
					}
				}
			}
		}
	}
	st.count(cnt, nt)
	st.class("triples", cnt)
	st.exhaustive(fmt.Sprintf("all ordered triples over a universe of %d signatures (stack length 1..3, per-frame location class, package main, function, DirSrc, line, lock, state, member count), relation recovered from 4 runs per pair, observed at %s", nu, levelNames[lvl]), cnt)
	st.sample(map[string]any{"level": levelNames[lvl], "triple": []string{u[4].String(), u[12].String(), u[nu-1].String()}})
}
