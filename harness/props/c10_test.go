package props

import (
	"bytes"
	"errors"
	"fmt"
	"io"
	"reflect"
	"strings"
	"testing"

	"github.com/maruel/panicparse/v2/stack"
	"pgregory.net/rapid"
)

// C10 — truncation and read-failure tolerance: every byte offset of a stream as the cut
// point, signalled in four ways.

var errInjected = errors.New("injected read failure")

// errWrapsEOF: a reader failure that carries io.EOF in its chain (a transport reporting an
// unexpected end). It is a failure, not the end of the stream, and must be reported as itself.
var errWrapsEOF = fmt.Errorf("read tcp 10.0.0.1:443: connection reset: %w", io.EOF)

// cutReader delivers data[:c] (in chunks of chunk bytes) and then fails.
type cutReader struct {
	data     []byte
	c        int
	pos      int
	chunk    int
	err      error // error signalled at the cut
	withData bool  // signalled together with the last data
	once     bool  // the failure is reported once; later calls report a plain end of stream
	told     bool
}

func (r *cutReader) Read(p []byte) (int, error) {
	if r.pos >= r.c {
		if r.once && r.told {
			return 0, io.EOF
		}
		r.told = true
		return 0, r.err
	}
	n := min(len(p), r.c-r.pos)
	if r.chunk > 0 {
		n = min(n, r.chunk)
	}
	copy(p, r.data[r.pos:r.pos+n])
	r.pos += n
	if r.pos == r.c && r.withData {
		r.told = true
		return n, r.err
	}
	return n, nil
}

type c10Case struct {
	S StreamM // exactly one dump or race report, junk around it
	// Only is the (offset, mode) pair to check; {-1,-1}: all offsets x all modes.
	C    int
	Mode int
}

func eraseNames(gs []*stack.Goroutine) {
	var walk func(a *stack.Args)
	walk = func(a *stack.Args) {
		for i := range a.Values {
			a.Values[i].Name = ""
			walk(&a.Values[i].Fields)
		}
	}
	for _, g := range gs {
		for i := range g.Stack.Calls {
			walk(&g.Stack.Calls[i].Args)
		}
	}
}

type c10Ctx struct {
	x          []byte
	pre        []byte
	a, b       int // the dump (with its blank separator) is x[a:b]
	t          int // offset at which the first terminating line ends; -1: none
	tStart     int // where that line starts
	uncut      *stack.Snapshot
	uncutGuess *stack.Snapshot // the uncut stream parsed with path guessing on
	ends       []int           // absolute end offset of each goroutine's text
	hdrEnds    []int           // absolute end offset of each goroutine's header line
	starts     []int           // absolute start offset of each goroutine's header line
	firstLines int             // absolute end offset of the dump's first line (race: first two lines)
	race       bool
}

func guessOpts() *stack.Opts { return &stack.Opts{GuessPaths: true} }

// resolveFix replaces the fixture placeholder in file names by the real directory.
func resolveFix(s *StreamM) StreamM {
	out := *s
	out.Items = append([]Item{}, s.Items...)
	for i := range out.Items {
		if d := out.Items[i].Dump; d != nil {
			nd := *d
			nd.Gs = append([]GM{}, d.Gs...)
			for gi := range nd.Gs {
				nd.Gs[gi].Frames = cloneFrames(nd.Gs[gi].Frames)
				for fi := range nd.Gs[gi].Frames {
					f := &nd.Gs[gi].Frames[fi]
					f.File = strings.ReplaceAll(f.File, "@FIX@", fixtureDir())
				}
			}
			out.Items[i].Dump = &nd
		}
	}
	return out
}

func c10Prepare(s0 *StreamM) (*c10Ctx, error) {
	rs := resolveFix(s0)
	s := &rs
	it := &s.Items[0]
	ctx := &c10Ctx{x: s.Bytes(), pre: s.Pre, race: it.Race != nil}
	ctx.a = len(s.Pre)
	db := it.dumpBytes()
	ctx.b = ctx.a + len(db)
	ctx.t = -1
	if it.Race != nil {
		ctx.tStart = ctx.b
		if bytes.HasSuffix(db, []byte("\n")) {
			ctx.t = ctx.b // the closing separator ends the report; nothing more is read
		}
		ends, hdr := it.Race.Spans()
		for i := range ends {
			ctx.ends = append(ctx.ends, ctx.a+ends[i])
			ctx.hdrEnds = append(ctx.hdrEnds, ctx.a+hdr[i])
		}
		ls := it.Race.Lines()
		ctx.firstLines = ctx.a + len(ls[0]) + len(ls[1])
		// operation header starts
		off := ctx.a
		k := 0
		for _, l := range ls {
			if k < len(ctx.hdrEnds) && off+len(l) == ctx.hdrEnds[k] {
				ctx.starts = append(ctx.starts, off)
				k++
			}
			off += len(l)
		}
	} else {
		if len(it.After) > 0 {
			first := splitLines(it.After)[0]
			ctx.tStart = ctx.b
			if bytes.HasSuffix(first, []byte("\n")) {
				ctx.t = ctx.b + len(first)
			}
		}
		ls := it.Dump.Lines()
		ctx.firstLines = ctx.a + len(ls[0])
		for _, sp := range it.Dump.Spans() {
			ctx.starts = append(ctx.starts, ctx.a+sp[0])
			ctx.ends = append(ctx.ends, ctx.a+sp[1])
		}
		// header line ends
		for _, st := range ctx.starts {
			e := bytes.IndexByte(ctx.x[st:], '\n')
			if e < 0 {
				ctx.hdrEnds = append(ctx.hdrEnds, len(ctx.x))
			} else {
				ctx.hdrEnds = append(ctx.hdrEnds, st+e+1)
			}
		}
	}
	u, _, err := stack.ScanSnapshot(bytes.NewReader(ctx.x), io.Discard, plainOpts())
	if u == nil || (err != nil && err != io.EOF) {
		return nil, fmt.Errorf("uncut stream: snapshot=%v err=%v", u != nil, err)
	}
	if e := cmpGoroutines(it.expected(), u.Goroutines); e != nil {
		return nil, fmt.Errorf("uncut stream: %v", e)
	}
	ctx.uncut = u
	ug, _, err := stack.ScanSnapshot(bytes.NewReader(ctx.x), io.Discard, guessOpts())
	if ug == nil || (err != nil && err != io.EOF) {
		return nil, fmt.Errorf("uncut stream with path guessing: snapshot=%v err=%v", ug != nil, err)
	}
	ctx.uncutGuess = ug
	return ctx, nil
}

// ref is what complete goroutines are compared with. Root detection is global to a snapshot
// (a later goroutine's files decide how earlier frames resolve), so with path guessing on the
// uncut stream is no sound reference for a cut one; the same delivered bytes ending in a plain
// EOF are: how the cut is signalled must not change what was parsed before it.
func (ctx *c10Ctx) ref(o *stack.Opts, c int, finished bool) *stack.Snapshot {
	if !o.GuessPaths {
		return ctx.uncut
	}
	if finished {
		return ctx.uncutGuess
	}
	s, _, _ := stack.ScanSnapshot(bytes.NewReader(ctx.x[:c]), io.Discard, o)
	if s == nil {
		return &stack.Snapshot{}
	}
	return s
}

// lineStartAt: is offset o the start of a line of x (or the end of x)?
func lineStartAt(x []byte, o int) bool { return o == 0 || o >= len(x) || x[o-1] == '\n' }

func (ctx *c10Ctx) checkCut(c, mode int, opts *stack.Opts) (kfcut bool, err error) {
	r := &cutReader{data: ctx.x, c: c, chunk: []int{0, 7, 0, 1}[c%4]}
	switch mode {
	case 0:
		r.err = io.EOF
	case 1:
		r.err, r.withData = io.EOF, true
	case 2:
		r.err = errInjected
	case 3:
		r.err, r.withData = errInjected, true
	}
	// some transports report a failure once and then a plain end of stream
	r.once = mode >= 2 && c%5 < 2
	inj := errInjected
	if mode >= 2 && c%3 == 1 {
		inj = errWrapsEOF
		r.err = inj
	}
	var w bytes.Buffer
	var snap *stack.Snapshot
	var suffix []byte
	var e error
	if pe := guard(func() error {
		snap, suffix, e = stack.ScanSnapshot(r, &w, opts)
		return nil
	}); pe != nil {
		return false, pe
	}
	fwd := w.Bytes()
	finished := ctx.t >= 0 && c >= ctx.t
	if finished {
		if e != nil {
			return false, fmt.Errorf("the dump ended before the cut, yet err=%v", e)
		}
		if !bytes.Equal(fwd, ctx.pre) {
			return false, fmt.Errorf("forwarded: %s", firstDiffBytes(ctx.pre, fwd))
		}
		rem := append(append([]byte{}, suffix...), ctx.x[r.pos:c]...)
		if !bytes.Equal(rem, ctx.x[ctx.tStart:c]) {
			return false, fmt.Errorf("remainder: %s", firstDiffBytes(ctx.x[ctx.tStart:c], rem))
		}
		if snap == nil {
			return false, fmt.Errorf("no snapshot although the whole dump was delivered")
		}
		got := snap.Goroutines
		if opts.NameArguments {
			eraseNames(got)
		}
		if !reflect.DeepEqual(got, ctx.ref(opts, c, true).Goroutines) {
			return false, fmt.Errorf("snapshot differs from the uncut stream's")
		}
		return false, nil
	}
	// The fault was met.
	if mode >= 2 {
		if e != inj {
			return false, fmt.Errorf("reader failed with %q but ScanSnapshot returned %v", inj, e)
		}
	} else if e == nil {
		return false, fmt.Errorf("stream ended inside/before the dump's end but err is nil")
	}
	// Forwarded bytes are a prefix of what the uncut stream forwards.
	if !bytes.HasPrefix(ctx.pre, fwd) {
		inFirst := c > ctx.a && c < ctx.firstLines && !lineStartAt(ctx.x, c)
		if inFirst && knownOpen("KF-CUT") && bytes.HasPrefix(fwd, ctx.pre) && bytes.HasSuffix(ctx.x[ctx.a:c], fwd[len(ctx.pre):]) {
			kfcut = true
		} else {
			return false, fmt.Errorf("forwarded bytes are not a prefix of what the uncut stream forwards: %s", firstDiffBytes(ctx.pre, fwd))
		}
	}
	// Goroutines.
	var got []*stack.Goroutine
	if snap != nil {
		got = snap.Goroutines
		if opts.NameArguments {
			eraseNames(got)
		}
	}
	j := -1 // last goroutine whose header started before the cut
	for i, st := range ctx.starts {
		if st < c {
			j = i
		}
	}
	minG := 0
	for i := range ctx.hdrEnds {
		// A header is known complete once its EOL was delivered, or when the cut falls exactly
		// after its last visible character (an unterminated last line is still scanned inside
		// a dump). A CRLF header cut between CR and LF is not a header line.
		vis := ctx.hdrEnds[i] - 1
		if bytes.HasSuffix(ctx.x[:ctx.hdrEnds[i]], []byte("\r\n")) {
			vis--
		}
		if c >= ctx.hdrEnds[i] || c == vis {
			minG = i + 1
		}
	}
	if c < ctx.firstLines {
		// While looking for a dump an unterminated line is never scanned: the first line only
		// counts once its EOL was delivered.
		minG = 0
	}
	if len(got) < minG || len(got) > j+2 {
		return kfcut, fmt.Errorf("%d goroutines returned; %d headers were complete, %d had started", len(got), minG, j+1)
	}
	ref := ctx.ref(opts, c, false)
	for i := 0; i < len(got) && i < len(ctx.ends); i++ {
		complete := ctx.ends[i] <= c
		// The goroutine being read at the cut: the last started one, whose following line is cut.
		beingRead := complete && !lineStartAt(ctx.x, c) && bytes.IndexByte(ctx.x[ctx.ends[i]:c], '\n') < 0
		if ctx.race {
			// creation sections may still be attached to any operation until the report ends
			beingRead = beingRead || !complete
		}
		if complete && !beingRead {
			if refG := ref.Goroutines; i >= len(refG) || !reflect.DeepEqual(got[i], refG[i]) {
				return kfcut, fmt.Errorf("goroutine %d (id %d) lay entirely before the cut but differs from the uncut parse (path guessing=%v)", i, ctx.uncut.Goroutines[i].ID, opts.GuessPaths)
			}
		} else if complete && !opts.GuessPaths && i < len(ctx.uncut.Goroutines) {
			// The goroutine whose text was delivered completely and whose following line is
			// the one that was cut: that line may add something to it, but every frame that
			// was delivered - of its stack and of its creation stack - must be there.
			u := ctx.uncut.Goroutines[i]
			if opts.NameArguments {
				u = cloneGoroutine(u)
				eraseNames([]*stack.Goroutine{u})
			}
			for _, pr := range []struct {
				what      string
				got, want []stack.Call
			}{{"stack", got[i].Stack.Calls, u.Stack.Calls}, {"creation stack", got[i].CreatedBy.Calls, u.CreatedBy.Calls}} {
				if len(pr.got) < len(pr.want) || !reflect.DeepEqual(pr.got[:len(pr.want)], pr.want) {
					return kfcut, fmt.Errorf("goroutine %d (id %d) was delivered completely before the cut line, yet its %s lost frames that were delivered: %d frames, the uncut parse has %d", i, u.ID, pr.what, len(pr.got), len(pr.want))
				}
			}
		} else if got[i].ID != ctx.uncut.Goroutines[i].ID && i < j {
			return kfcut, fmt.Errorf("goroutine %d has id %d, uncut parse has %d", i, got[i].ID, ctx.uncut.Goroutines[i].ID)
		}
	}
	return kfcut, nil
}

var modeNames = []string{"EOF after data", "EOF with last data", "error after data", "error with last data"}

func c10Oracle(c c10Case) error {
	ctx, err := c10Prepare(&c.S)
	if err != nil {
		return err
	}
	st := statsFor("C10")
	check := func(off, mode int) error {
		for _, o := range []*stack.Opts{plainOpts(), {NameArguments: true}, guessOpts()} {
			kf, e := ctx.checkCut(off, mode, o)
			if kf {
				st.excluded(1)
			}
			if e != nil {
				return fmt.Errorf("cut at offset %d of %d (%s, naming=%v, path guessing=%v; dump occupies [%d,%d)): %v", off, len(ctx.x), modeNames[mode], o.NameArguments, o.GuessPaths, ctx.a, ctx.b, e)
			}
		}
		return nil
	}
	if c.C >= 0 {
		return check(c.C, c.Mode)
	}
	var inside int64
	// Every offset of ordinary streams; for very long ones (lines crossing the 16 KiB buffer)
	// every 13th offset (or more, see stride) plus everything near a line boundary and near a
	// buffer boundary.
	// The stride grows with the square of the length (every cut re-scans the stream), so that
	// a case costs a bounded number of scanned bytes whatever its size.
	stride := max(13, len(ctx.x)/1000*len(ctx.x)/40000)
	take := func(off int) bool {
		if len(ctx.x) <= 6000 || off%stride == 0 || len(ctx.x)-off < 4 {
			return true
		}
		if m := off % 16384; m <= 3 || m >= 16381 {
			return true
		}
		for d := -3; d <= 3; d++ {
			if o := off + d; o > 0 && o <= len(ctx.x) && ctx.x[o-1] == '\n' {
				return true
			}
		}
		return false
	}
	var visited int64
	for off := 0; off <= len(ctx.x); off++ {
		if !take(off) {
			continue
		}
		visited++
		for mode := 0; mode < 4; mode++ {
			if e := check(off, mode); e != nil {
				return e
			}
		}
		if off > ctx.a && off < ctx.b {
			inside += 4
		}
	}
	st.count(visited*4, inside)
	return nil
}

var c10 = Check[c10Case]{
	Prop: "C10", Name: "cuts",
	Gen: func(t *rapid.T) c10Case {
		o := StreamOpts{MinItems: 1, MaxItems: 1,
			Dump: DumpOpts{MaxG: 4, MaxFrames: 4, Variants: true, LongLines: thorough()},
			Race: RaceOpts{MaxOps: 3, MaxFrames: 3, Args: true},
			Junk: JunkOpts{MaxLines: 3, Binary: true}}
		s := genStream(t, o)
		// some frames lie in a local module (the fixture tree) so that path guessing resolves them
		if d := s.Items[0].Dump; d != nil {
			for gi := range d.Gs {
				for fi := range d.Gs[gi].Frames {
					if oneIn(t, 3, "fixtureFrame") {
						f := &d.Gs[gi].Frames[fi]
						f.File, f.Line = "@FIX@/"+rapid.SampledFrom([]string{"main.go", "sub/x.go"}).Draw(t, "fixFile"), rapid.IntRange(1, 30).Draw(t, "fixLine")
					}
				}
			}
		}
		return c10Case{S: s, C: -1, Mode: -1}
	},
	Oracle: c10Oracle,
	Obs: func(c c10Case) Obs {
		cl := []string{"dump"}
		if c.S.Items[0].Race != nil {
			cl = []string{"race"}
		}
		// evaluations are counted per (offset, mode) by the oracle itself
		return Obs{Nontrivial: false, Classes: cl, Sample: quoteShort(truncBytes(c.S.Bytes(), 700))}
	},
}

func init() { register(c10.key(), c10.Oracle) }

func TestC10(t *testing.T) {
	c := c10
	c.Checks = n(25, 60) // every case is a whole stream cut at every offset in four ways under three option sets
	c.Run(t)
	r := c10Res
	r.Checks = n(40, 600)
	r.Run(t)
	p := c10PP
	p.Checks = n(30, 600)
	p.Run(t)
	q := c10Src
	q.Checks = n(3, 40)
	q.Run(t)
}
