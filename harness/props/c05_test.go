package props

import (
	"fmt"
	"testing"

	"github.com/maruel/panicparse/v2/stack"
	"pgregory.net/rapid"
)

// C05 — buckets are exactly the similarity classes of the chosen level.

// c05Check compares co-membership with the reference keys at every level, and the refinement
// chain ExactFlags ⊑ ExactLines ⊑ AnyPointer ⊑ AnyValue.
func c05Check(s *stack.Snapshot) (crossLevel bool, big bool, err error) {
	parts := make([]map[int]int, len(allLevels))
	// The reference keys come from a pristine copy, and the levels are aggregated from the
	// coarsest to the finest on the same snapshot: what a coarse aggregation does must not
	// influence a later, finer one.
	pristine := cloneSnapshot(s)
	for li := len(allLevels) - 1; li >= 0; li-- {
		l := allLevels[li]
		a := s.Aggregate(l)
		p, err := partitionOf(a)
		if err != nil {
			return false, false, fmt.Errorf("%s: %v", levelNames[l], err)
		}
		parts[li] = p
		keys := make([]string, len(s.Goroutines))
		for i, g := range s.Goroutines {
			keys[i] = refKey(pristine.Goroutines[i], l)
			if _, ok := p[g.ID]; !ok {
				return false, false, fmt.Errorf("%s: goroutine %d is in no bucket", levelNames[l], g.ID)
			}
		}
		for i := range s.Goroutines {
			for j := i + 1; j < len(s.Goroutines); j++ {
				gi, gj := s.Goroutines[i], s.Goroutines[j]
				together := p[gi.ID] == p[gj.ID]
				same := keys[i] == keys[j]
				if together && !same {
					return false, false, fmt.Errorf("%s: goroutines %d and %d share a bucket but are not similar:\n  %s\n  %s", levelNames[l], gi.ID, gj.ID, keys[i], keys[j])
				}
				if !together && same {
					return false, false, fmt.Errorf("%s: goroutines %d and %d are similar but in different buckets:\n  %s", levelNames[l], gi.ID, gj.ID, keys[i])
				}
			}
		}
		for _, b := range a.Buckets {
			if len(b.IDs) >= 3 {
				big = true
			}
		}
	}
	for li := 0; li+1 < len(allLevels); li++ {
		for i := range s.Goroutines {
			for j := i + 1; j < len(s.Goroutines); j++ {
				a, b := s.Goroutines[i].ID, s.Goroutines[j].ID
				fine := parts[li][a] == parts[li][b]
				coarse := parts[li+1][a] == parts[li+1][b]
				if fine && !coarse {
					return false, false, fmt.Errorf("goroutines %d and %d are together at %s but apart at %s", a, b, levelNames[allLevels[li]], levelNames[allLevels[li+1]])
				}
				if !fine && coarse {
					crossLevel = true
				}
			}
		}
	}
	return crossLevel, big, nil
}

// c05Perm: the partition does not depend on the order in which goroutines were printed.
func c05Perm(s *stack.Snapshot, perm []int) error {
	p := &stack.Snapshot{}
	for _, k := range perm {
		p.Goroutines = append(p.Goroutines, cloneGoroutine(s.Goroutines[k]))
	}
	for _, l := range allLevels {
		if a, b := canonicalPartition(s.Aggregate(l)), canonicalPartition(p.Aggregate(l)); a != b {
			return fmt.Errorf("%s: partition depends on the order of the goroutines: %s vs %s (order %v)", levelNames[l], a, b, perm)
		}
	}
	return nil
}

type c05Case struct {
	D    DumpM
	Race *RaceM `json:",omitempty"`
	Perm []int
}

func (c *c05Case) snapshot() (*stack.Snapshot, error) {
	if c.Race != nil {
		s, err := scanAloneOpts(c.Race.Print(), plainOpts())
		if s == nil {
			return nil, fmt.Errorf("generated race report does not parse: %v", err)
		}
		return s, nil
	}
	return parseDump(&c.D, plainOpts())
}

func c05Oracle(c c05Case) error {
	s, err := c.snapshot()
	if err != nil {
		return err
	}
	if _, _, err := c05Check(s); err != nil {
		return err
	}
	if len(c.Perm) == len(s.Goroutines) {
		return c05Perm(s, c.Perm)
	}
	return nil
}

var c05Rand = Check[c05Case]{
	Prop: "C05", Name: "random",
	Gen: func(t *rapid.T) c05Case {
		if oneIn(t, 8, "raceSnapshot") {
			r := genAggRace(t)
			c := c05Case{Race: &r}
			ids := make([]int, len(r.Ops))
			for i := range ids {
				ids[i] = i
			}
			c.Perm = rapid.Permutation(ids).Draw(t, "perm")
			return c
		}
		c := c05Case{D: genAggDump(t, 40)}
		ids := make([]int, len(c.D.Gs))
		for i := range ids {
			ids[i] = i
		}
		c.Perm = rapid.Permutation(ids).Draw(t, "perm")
		return c
	},
	Oracle: c05Oracle,
	Obs: func(c c05Case) Obs {
		s, err := c.snapshot()
		nt := false
		var cl []string
		if c.Race != nil {
			cl = append(cl, "race_snapshot")
		}
		if err == nil {
			cross, big, _ := c05Check(s)
			nt = cross && big
			if cross {
				cl = append(cl, "pair_together_at_one_level_apart_at_another")
			}
			if big {
				cl = append(cl, "bucket_ge_3")
			}
		}
		in := c.D.Print()
		if c.Race != nil {
			in = c.Race.Print()
		}
		return Obs{Nontrivial: nt, Digest: digestBytes(in), Classes: cl, Sample: quoteShort(truncBytes(in, 900))}
	},
}

// ---- single-difference universes ------------------------------------------------------------

// singleDiffUniverse: a base goroutine and variants differing from it in exactly one attribute.
func singleDiffUniverse() ([]GM, []string) {
	base := func() GM {
		return GM{State: "semacquire", ElideAt: -1,
			Frames: []FrameM{
				{Pkg: "main", Name: "f", File: "/a/f.go", Line: 10, PCOff: 1, Args: ArgListM{Items: []ArgM{{Val: 0xc000010000}, {Val: 7}, {Agg: &ArgListM{Items: []ArgM{{Val: 0xc000030000}, {Val: 3}}}}}}},
				{Pkg: "net/http", Name: "(*T).M", File: "/src/b/m.go", Line: 20, PCOff: 2, Args: ArgListM{Items: []ArgM{{Val: 0x1}}}},
			},
			Creator: &CreatorM{Pkg: "main", Name: "spawn", File: "/src/a/s.go", Line: 5, PCOff: 3}}
	}
	var u []GM
	var names []string
	add := func(name string, f func(g *GM)) {
		g := base()
		g.Frames = cloneFrames(g.Frames)
		c := *g.Creator
		g.Creator = &c
		f(&g)
		u = append(u, g)
		names = append(names, name)
	}
	add("base", func(g *GM) {})
	add("state", func(g *GM) { g.State = "select" })
	// the state text includes what the runtime puts in parentheses ("chan receive (nil chan)",
	// "select (no cases)", " (scan)" while the collector scans the stack): another state
	add("state differing by a parenthesised suffix", func(g *GM) { g.State = "semacquire (scan)" })
	add("creator func", func(g *GM) { g.Creator.Name = "spawn2" })
	add("creator file", func(g *GM) { g.Creator.File = "/src/a/t.go" })
	add("creator line", func(g *GM) { g.Creator.Line = 6 })
	add("no creator", func(g *GM) { g.Creator = nil })
	add("frame func", func(g *GM) { g.Frames[1].Name = "(*T).N" })
	add("frame file", func(g *GM) { g.Frames[1].File = "/src/c/m.go" })
	add("frame line", func(g *GM) { g.Frames[0].Line = 11 })
	add("frame path above the parent directory", func(g *GM) { g.Frames[1].File = "/other/b/m.go" })
	add("creator path above the parent directory", func(g *GM) { g.Creator.File = "/other/a/s.go" })
	add("stack length", func(g *GM) { g.Frames = g.Frames[:1] })
	add("elided", func(g *GM) { g.ElideAt = 2; g.ElideN = 3 })
	add("argument count", func(g *GM) { g.Frames[1].Args.Items = append(g.Frames[1].Args.Items, ArgM{Val: 2}) })
	add("aggregate shape", func(g *GM) { g.Frames[0].Args.Items[2].Agg.Items = g.Frames[0].Args.Items[2].Agg.Items[:1] })
	add("dots", func(g *GM) { g.Frames[1].Args.Dots = true })
	add("dots nested", func(g *GM) { g.Frames[0].Args.Items[2].Agg.Dots = true })
	add("too large", func(g *GM) { g.Frames[0].Args.Items[1] = ArgM{TooLarge: true} })
	add("non-pointer value zero", func(g *GM) { g.Frames[0].Args.Items[1].Val = 0 })
	add("non-pointer value", func(g *GM) { g.Frames[0].Args.Items[1].Val = 8 })
	add("non-pointer value nested", func(g *GM) { g.Frames[0].Args.Items[2].Agg.Items[1].Val = 4 })
	add("pointer value", func(g *GM) { g.Frames[0].Args.Items[0].Val = 0xc000020000 })
	add("pointer value nested", func(g *GM) { g.Frames[0].Args.Items[2].Agg.Items[0].Val = 0xc000040000 })
	add("pointer vs non-pointer", func(g *GM) { g.Frames[0].Args.Items[0].Val = 9 })
	add("scalar vs aggregate", func(g *GM) { g.Frames[1].Args.Items[0] = ArgM{Agg: &ArgListM{Items: []ArgM{{Val: 1}}}} })
	add("locked", func(g *GM) { g.Locked = true })
	add("sleep", func(g *GM) { g.Minutes = 4 })
	add("sleep2", func(g *GM) { g.Minutes = 12 })
	add("second pointer value", func(g *GM) { g.Frames[0].Args.Items[0].Val = 0xc000050000 })
	return u, names
}

type c05UniCase struct {
	Seq []int
}

var c05Uni []*stack.Goroutine

func c05Universe() []*stack.Goroutine {
	if c05Uni == nil {
		gs, _ := singleDiffUniverse()
		u, err := parsedUniverse(gs, plainOpts())
		if err != nil {
			panic("HARNESS: " + err.Error())
		}
		c05Uni = u
	}
	return c05Uni
}

var c05UniCheck = Check[c05UniCase]{
	Prop: "C05", Name: "universe",
	Oracle: func(c c05UniCase) error {
		s := assemble(c05Universe(), c.Seq, nil, 0)
		if _, _, err := c05Check(s); err != nil {
			return err
		}
		// every arrival order of these members
		if len(c.Seq) <= 3 {
			perm := make([]int, len(c.Seq))
			for i := range perm {
				perm[i] = len(c.Seq) - 1 - i
			}
			return c05Perm(s, perm)
		}
		return nil
	},
}

// permutations of a small snapshot, exhaustively.
func forEachPerm(n int, f func(p []int) bool) {
	p := make([]int, n)
	for i := range p {
		p[i] = i
	}
	var rec func(k int) bool
	rec = func(k int) bool {
		if k == n {
			return f(p)
		}
		for i := k; i < n; i++ {
			p[k], p[i] = p[i], p[k]
			if !rec(k + 1) {
				return false
			}
			p[k], p[i] = p[i], p[k]
		}
		return true
	}
	rec(0)
}

type c05PermCase struct {
	D DumpM
}

var c05PermAll = Check[c05PermCase]{
	Prop: "C05", Name: "allperms",
	Gen: func(t *rapid.T) c05PermCase {
		d := genAggDump(t, 6)
		if len(d.Gs) > 6 {
			d.Gs = d.Gs[:6]
		}
		return c05PermCase{D: d}
	},
	Oracle: func(c c05PermCase) error {
		s, err := parseDump(&c.D, plainOpts())
		if err != nil {
			return err
		}
		var perr error
		forEachPerm(len(s.Goroutines), func(p []int) bool {
			perr = c05Perm(s, p)
			return perr == nil
		})
		return perr
	},
	Obs: func(c c05PermCase) Obs {
		return Obs{Nontrivial: len(c.D.Gs) >= 4, Digest: digestBytes(c.D.Print(), []byte("perm")), Classes: []string{"all_permutations"}}
	},
}

func init() {
	register(c05Rand.key(), c05Rand.Oracle)
	register(c05UniCheck.key(), c05UniCheck.Oracle)
	register(c05PermAll.key(), c05PermAll.Oracle)
}

func TestC05(t *testing.T) {
	st := statsFor("C05")
	u, names := singleDiffUniverse()
	var cnt, nt int64
	forEachTuple(len(u), 3, func(idx int, seq []int) {
		if !c05UniCheck.Each(t, c05UniCase{Seq: append([]int{}, seq...)}) {
			return
		}
		cnt++
		if len(seq) >= 2 {
			nt++
		}
	})
	st.count(cnt, nt)
	st.class("single_difference_tuples", cnt)
	st.exhaustive(fmt.Sprintf("all ordered pairs and triples over a universe of %d goroutines differing from a base in exactly one attribute (%v) x 4 levels", len(u), names), cnt)
	st.sample(map[string]any{"single_difference_triple": []string{names[0], names[20], names[28]}})
	a := c05Rand
	a.Checks = n(2500, 60000)
	a.Run(t)
	b := c05PermAll
	b.Checks = n(150, 4000)
	b.Run(t)
}
