package props

// Model of the Go runtime's traceback printer (runtime/traceback.go of go1.23.5 and go1.26.8:
// goroutineheader, traceback1/traceback2, printArgs, printFuncName, printcreatedby1,
// tracebackothers) together with the ground truth a faithful parser must recover.

import (
	"bytes"
	"fmt"
	"strconv"
	"strings"

	"github.com/maruel/panicparse/v2/stack"
)

// ArgM is one printed argument word, aggregate, or the '_' placeholder.
type ArgM struct {
	Agg      *ArgListM `json:",omitempty"`
	Val      uint64    `json:",omitempty"`
	Inacc    bool      `json:",omitempty"` // printed with a trailing '?'
	TooLarge bool      `json:",omitempty"` // printed as '_'
}

// ArgListM is an argument list or the inside of an aggregate.
type ArgListM struct {
	Items []ArgM `json:",omitempty"`
	Dots  bool   `json:",omitempty"` // trailing "..."
}

// FrameM is one logical frame.
type FrameM struct {
	Pkg     string // unescaped package path; "" for a C symbol without a dot
	Name    string
	Args    ArgListM
	Inlined bool `json:",omitempty"` // printed as name(...)
	File    string
	Line    int
	PCOff   int64 // < 0: no " +0x.." suffix
}

// CreatorM is the "created by" record.
type CreatorM struct {
	Pkg    string
	Name   string
	Parent int // 0: " in goroutine N" not printed (go < 1.21)
	File   string
	Line   int
	PCOff  int64
}

// GM is one goroutine.
type GM struct {
	ID       int
	State    string // status text including " (scan)" etc.
	Minutes  int
	Locked   bool      `json:",omitempty"`
	Extra    []string  `json:",omitempty"` // further header items, e.g. "synctest bubble 3"
	Unavail  bool      `json:",omitempty"`
	Frames   []FrameM  `json:",omitempty"`
	ElideAt  int       // -1: no marker; otherwise the marker is printed before Frames[ElideAt] (== len: after the last)
	ElideOld bool      `json:",omitempty"` // "...additional frames elided..." (go < 1.21)
	ElideN   int       `json:",omitempty"`
	Creator  *CreatorM `json:",omitempty"`
}

// DumpM is a whole dump plus its formatting variant.
type DumpM struct {
	Gs          []GM
	Indent      string `json:",omitempty"` // one uniform leading indentation of every line
	CRLF        bool   `json:",omitempty"`
	FileIndent  string // "\t" or 1..8 spaces
	BlankIndent bool   `json:",omitempty"` // blank separator lines carry the indentation too
	Level2      bool   `json:",omitempty"` // gp= m= mp= in headers, fp= sp= pc= on file lines
}

// pathToPrefix transcribes cmd/internal/objabi.PathToPrefix.
func pathToPrefix(s string) string {
	slash := strings.LastIndex(s, "/")
	const hex = "0123456789abcdef"
	p := make([]byte, 0, len(s)+8)
	for r := 0; r < len(s); r++ {
		if c := s[r]; c <= ' ' || (c == '.' && r > slash) || c == '%' || c == '"' || c >= 0x7F {
			p = append(p, '%', hex[c>>4], hex[c&0xF])
		} else {
			p = append(p, c)
		}
	}
	return string(p)
}

func symbol(pkg, name string) string {
	if pkg == "" {
		return name
	}
	return pathToPrefix(pkg) + "." + name
}

func (a *ArgListM) print(b *bytes.Buffer) {
	start := true
	comma := func() {
		if !start {
			b.WriteString(", ")
		}
	}
	for _, it := range a.Items {
		switch {
		case it.Agg != nil:
			comma()
			b.WriteByte('{')
			it.Agg.print(b)
			b.WriteByte('}')
		case it.TooLarge:
			comma()
			b.WriteByte('_')
		default:
			comma()
			b.WriteString("0x")
			b.WriteString(strconv.FormatUint(it.Val, 16))
			if it.Inacc {
				b.WriteByte('?')
			}
		}
		start = false
	}
	if a.Dots {
		comma()
		b.WriteString("...")
	}
}

func (d *DumpM) eol() string {
	if d.CRLF {
		return "\r\n"
	}
	return "\n"
}

// Lines returns the dump as separate lines (with indentation and EOL applied).
func (d *DumpM) Lines() [][]byte {
	var out [][]byte
	eol := d.eol()
	line := func(s string) {
		out = append(out, []byte(d.Indent+s+eol))
	}
	blank := func() {
		if d.BlankIndent {
			out = append(out, []byte(d.Indent+eol))
		} else {
			out = append(out, []byte(eol))
		}
	}
	fi := d.FileIndent
	if fi == "" {
		fi = "\t"
	}
	pcoff := func(o int64) string {
		if o < 0 {
			return ""
		}
		return " +0x" + strconv.FormatInt(o, 16)
	}
	for i := range d.Gs {
		g := &d.Gs[i]
		if i > 0 {
			blank()
		}
		var h bytes.Buffer
		fmt.Fprintf(&h, "goroutine %d", g.ID)
		if d.Level2 {
			fmt.Fprintf(&h, " gp=0x%x", 0xc000002000+uint64(g.ID%4096)*0x1c0)
			if g.ID%3 == 0 {
				h.WriteString(" m=nil")
			} else {
				fmt.Fprintf(&h, " m=%d mp=0x%x", g.ID%7, 0x5a3f00+uint64(g.ID%7)*0x800)
			}
		}
		h.WriteString(" [" + g.State)
		if g.Minutes >= 1 {
			fmt.Fprintf(&h, ", %d minutes", g.Minutes)
		}
		if g.Locked {
			h.WriteString(", locked to thread")
		}
		for _, e := range g.Extra {
			h.WriteString(", " + e)
		}
		h.WriteString("]:")
		line(h.String())
		if g.Unavail {
			line(fi + "goroutine running on other thread; stack unavailable")
		} else {
			for j := range g.Frames {
				if g.ElideAt == j {
					line(elideMarker(g))
				}
				f := &g.Frames[j]
				var b bytes.Buffer
				b.WriteString(symbol(f.Pkg, f.Name))
				b.WriteByte('(')
				if f.Inlined {
					b.WriteString("...")
				} else {
					f.Args.print(&b)
				}
				b.WriteByte(')')
				line(b.String())
				s := fi + f.File + ":" + strconv.Itoa(f.Line)
				if !f.Inlined {
					s += pcoff(f.PCOff)
					if d.Level2 {
						s += fmt.Sprintf(" fp=0x%x sp=0x%x pc=0x%x", 0xc00009af80+uint64(j)*0x40, 0xc00009af40+uint64(j)*0x40, 0x401000+uint64(f.Line))
					}
				}
				line(s)
			}
			if g.ElideAt == len(g.Frames) && len(g.Frames) > 0 {
				line(elideMarker(g))
			}
		}
		if c := g.Creator; c != nil {
			s := "created by " + symbol(c.Pkg, c.Name)
			if c.Parent != 0 {
				s += " in goroutine " + strconv.Itoa(c.Parent)
			}
			line(s)
			line(fi + c.File + ":" + strconv.Itoa(c.Line) + pcoff(c.PCOff))
		}
	}
	return out
}

func elideMarker(g *GM) string {
	if g.ElideOld {
		return "...additional frames elided..."
	}
	return "..." + strconv.Itoa(g.ElideN) + " frames elided..."
}

// Print returns the dump text.
func (d *DumpM) Print() []byte {
	return bytes.Join(d.Lines(), nil)
}

// ---------------------------------------------------------------------------------------
// Ground truth.

func expArgs(a *ArgListM) stack.Args {
	out := stack.Args{Elided: a.Dots}
	for _, it := range a.Items {
		switch {
		case it.Agg != nil:
			out.Values = append(out.Values, stack.Arg{IsAggregate: true, Fields: expArgs(it.Agg)})
		case it.TooLarge:
			out.Values = append(out.Values, stack.Arg{IsOffsetTooLarge: true})
		default:
			out.Values = append(out.Values, stack.Arg{Value: it.Val, IsInaccurate: it.Inacc})
		}
	}
	return out
}

func lastElem(p string) string {
	if i := strings.LastIndexByte(p, '/'); i != -1 {
		return p[i+1:]
	}
	return p
}

func expCall(pkg, name, complete string, args stack.Args, file string, line int) stack.Call {
	c := stack.Call{
		Func: stack.Func{
			Complete:   complete,
			ImportPath: pkg,
			DirName:    lastElem(pkg),
			Name:       name,
			IsPkgMain:  pkg == "main",
		},
		Args:          args,
		RemoteSrcPath: file,
		Line:          line,
		ImportPath:    pkg,
	}
	if i := strings.LastIndexByte(file, '/'); i != -1 {
		c.SrcName = file[i+1:]
		if j := strings.LastIndexByte(file[:i], '/'); j != -1 {
			c.DirSrc = file[j+1:]
		}
	}
	return c
}

// Expected returns what a faithful parse of Print() contains. Fields the property does not
// speak about (Func.IsExported, Arg.IsPtr) are left zero and not compared.
func (d *DumpM) Expected() []*stack.Goroutine {
	var out []*stack.Goroutine
	for i := range d.Gs {
		g := &d.Gs[i]
		e := &stack.Goroutine{ID: g.ID, First: i == 0}
		e.State = g.State
		e.SleepMin, e.SleepMax = g.Minutes, g.Minutes
		e.Locked = g.Locked
		if g.Unavail {
			e.Stack.Calls = []stack.Call{{RemoteSrcPath: "<unavailable>"}}
		} else {
			for j := range g.Frames {
				f := &g.Frames[j]
				var a stack.Args
				if f.Inlined {
					a = stack.Args{Elided: true}
				} else {
					a = expArgs(&f.Args)
				}
				complete := f.Name
				if f.Pkg != "" {
					complete = f.Pkg + "." + f.Name
				}
				e.Stack.Calls = append(e.Stack.Calls, expCall(f.Pkg, f.Name, complete, a, f.File, f.Line))
			}
			e.Stack.Elided = g.ElideAt >= 0
		}
		if c := g.Creator; c != nil {
			complete := c.Name
			if c.Pkg != "" {
				complete = c.Pkg + "." + c.Name
			}
			// The creator's Complete keeps the runtime's " in goroutine N" suffix (that is the
			// complete reference as printed); Name must not.
			if c.Parent != 0 {
				complete += " in goroutine " + strconv.Itoa(c.Parent)
			}
			e.CreatedBy.Calls = []stack.Call{expCall(c.Pkg, c.Name, complete, stack.Args{}, c.File, c.Line)}
		}
		out = append(out, e)
	}
	return out
}

// ---------------------------------------------------------------------------------------
// Comparison of a parsed snapshot with the ground truth.

type cmpOpts struct {
	names bool // compare Arg.Name too (false: must be empty)
}

// cmpLoose: the scan ran with pointer naming, path guessing and source analysis on; the fields
// those options legitimately fill (names, typed rendering, local/relative paths, import path,
// location) are not compared, everything the dump itself says still is.
var cmpLoose bool

func cmpArgs(path string, want, got *stack.Args) error {
	if want.Elided != got.Elided {
		return fmt.Errorf("%s.Elided: want %v got %v", path, want.Elided, got.Elided)
	}
	if len(want.Values) != len(got.Values) {
		return fmt.Errorf("%s: want %d values got %d (%s)", path, len(want.Values), len(got.Values), got.String())
	}
	if len(got.Processed) != 0 && !cmpLoose {
		return fmt.Errorf("%s.Processed: want none got %q", path, got.Processed)
	}
	for i := range want.Values {
		w, g := &want.Values[i], &got.Values[i]
		p := fmt.Sprintf("%s[%d]", path, i)
		if w.IsAggregate != g.IsAggregate {
			return fmt.Errorf("%s.IsAggregate: want %v got %v", p, w.IsAggregate, g.IsAggregate)
		}
		if w.IsAggregate {
			if err := cmpArgs(p+".Fields", &w.Fields, &g.Fields); err != nil {
				return err
			}
			continue
		}
		if len(g.Fields.Values) != 0 || g.Fields.Elided {
			return fmt.Errorf("%s: scalar with fields", p)
		}
		if w.Value != g.Value {
			return fmt.Errorf("%s.Value: want %#x got %#x", p, w.Value, g.Value)
		}
		if w.IsInaccurate != g.IsInaccurate {
			return fmt.Errorf("%s.IsInaccurate: want %v got %v", p, w.IsInaccurate, g.IsInaccurate)
		}
		if w.IsOffsetTooLarge != g.IsOffsetTooLarge {
			return fmt.Errorf("%s.IsOffsetTooLarge: want %v got %v", p, w.IsOffsetTooLarge, g.IsOffsetTooLarge)
		}
		if g.Name != "" && !cmpLoose {
			return fmt.Errorf("%s.Name: want none got %q", p, g.Name)
		}
	}
	return nil
}

func cmpCall(path string, want, got *stack.Call, creator bool) error {
	type sf struct {
		n    string
		w, g string
	}
	fields := []sf{
		{"Func.ImportPath", want.Func.ImportPath, got.Func.ImportPath},
		{"Func.DirName", want.Func.DirName, got.Func.DirName},
		{"Func.Name", want.Func.Name, got.Func.Name},
		{"Func.Complete", want.Func.Complete, got.Func.Complete},
		{"RemoteSrcPath", want.RemoteSrcPath, got.RemoteSrcPath},
	}
	if !cmpLoose {
		fields = append(fields, sf{"ImportPath", want.ImportPath, got.ImportPath}, sf{"LocalSrcPath", "", got.LocalSrcPath}, sf{"RelSrcPath", "", got.RelSrcPath})
	}
	if strings.Count(want.RemoteSrcPath, "/") >= 1 {
		fields = append(fields, sf{"SrcName", want.SrcName, got.SrcName})
	}
	if strings.Count(want.RemoteSrcPath, "/") >= 2 {
		fields = append(fields, sf{"DirSrc", want.DirSrc, got.DirSrc})
	}
	for _, f := range fields {
		if f.w != f.g {
			return fmt.Errorf("%s.%s: want %q got %q", path, f.n, f.w, f.g)
		}
	}
	if want.Func.IsPkgMain != got.Func.IsPkgMain {
		return fmt.Errorf("%s.Func.IsPkgMain: want %v got %v", path, want.Func.IsPkgMain, got.Func.IsPkgMain)
	}
	if want.Line != got.Line {
		return fmt.Errorf("%s.Line: want %d got %d", path, want.Line, got.Line)
	}
	return cmpArgs(path+".Args", &want.Args, &got.Args)
}

func cmpStack(path string, want, got *stack.Stack, creator bool) error {
	if want.Elided != got.Elided {
		return fmt.Errorf("%s.Elided: want %v got %v", path, want.Elided, got.Elided)
	}
	if len(want.Calls) != len(got.Calls) {
		return fmt.Errorf("%s: want %d calls got %d", path, len(want.Calls), len(got.Calls))
	}
	for i := range want.Calls {
		if err := cmpCall(fmt.Sprintf("%s.Calls[%d]", path, i), &want.Calls[i], &got.Calls[i], creator); err != nil {
			return err
		}
	}
	return nil
}

func cmpGoroutine(path string, want, got *stack.Goroutine) error {
	if want.ID != got.ID {
		return fmt.Errorf("%s.ID: want %d got %d", path, want.ID, got.ID)
	}
	if want.First != got.First {
		return fmt.Errorf("%s.First: want %v got %v", path, want.First, got.First)
	}
	if want.State != got.State {
		return fmt.Errorf("%s.State: want %q got %q", path, want.State, got.State)
	}
	if want.SleepMin != got.SleepMin || want.SleepMax != got.SleepMax {
		return fmt.Errorf("%s.Sleep: want %d..%d got %d..%d", path, want.SleepMin, want.SleepMax, got.SleepMin, got.SleepMax)
	}
	if want.Locked != got.Locked {
		return fmt.Errorf("%s.Locked: want %v got %v", path, want.Locked, got.Locked)
	}
	if want.RaceAddr != got.RaceAddr || want.RaceWrite != got.RaceWrite {
		return fmt.Errorf("%s.Race: want %#x/%v got %#x/%v", path, want.RaceAddr, want.RaceWrite, got.RaceAddr, got.RaceWrite)
	}
	if err := cmpStack(path+".Stack", &want.Stack, &got.Stack, false); err != nil {
		return err
	}
	return cmpStack(path+".CreatedBy", &want.CreatedBy, &got.CreatedBy, true)
}

func cmpGoroutines(want, got []*stack.Goroutine) error {
	if len(want) != len(got) {
		ids := func(gs []*stack.Goroutine) []int {
			var o []int
			for _, g := range gs {
				o = append(o, g.ID)
			}
			return o
		}
		return fmt.Errorf("want %d goroutines %v, got %d %v", len(want), ids(want), len(got), ids(got))
	}
	for i := range want {
		if err := cmpGoroutine(fmt.Sprintf("Goroutines[%d]", i), want[i], got[i]); err != nil {
			return err
		}
	}
	return nil
}

// funcFlagsConsistent: what a symbol is (exported, package main) cannot depend on where it is
// printed: the same import path and name as a frame, as a creator, and as a creator followed
// by " in goroutine N" carry the same flags within one snapshot.
func funcFlagsConsistent(gs []*stack.Goroutine) error {
	type key struct{ imp, name string }
	type flags struct{ exported, main bool }
	seen := map[key]flags{}
	for _, g := range gs {
		for _, st := range []*stack.Stack{&g.Stack, &g.CreatedBy} {
			for i := range st.Calls {
				f := &st.Calls[i].Func
				k, v := key{f.ImportPath, f.Name}, flags{f.IsExported, f.IsPkgMain}
				if p, ok := seen[k]; ok && p != v {
					return fmt.Errorf("symbol %q %q is exported=%v main=%v in one place and exported=%v main=%v in another (%q)", f.ImportPath, f.Name, p.exported, p.main, v.exported, v.main, f.Complete)
				}
				seen[k] = v
			}
		}
	}
	return nil
}

// docIsPtr is the pointer classification as documented next to pointerFloor/pointerCeiling.
func docIsPtr(v uint64) (isPtr, decided bool) {
	switch {
	case v <= 512*1024:
		return false, true
	case v < 1<<63-1:
		return true, true
	case v == 1<<63-1:
		return false, false
	}
	return false, true
}

// ptrConsistency checks that pointer-likeness is a function of the value alone.
func ptrConsistency(gs []*stack.Goroutine) error {
	seen := map[uint64]bool{}
	var err error
	var walk func(a *stack.Args)
	walk = func(a *stack.Args) {
		for i := range a.Values {
			v := &a.Values[i]
			if v.IsAggregate {
				walk(&v.Fields)
				continue
			}
			if v.IsOffsetTooLarge {
				continue
			}
			// The documented classification (stack.go: "all values above 512KiB and positive
			// are pointers"). Exactly MaxInt64 is left open: the comment and the code disagree
			// about it.
			if want, decided := docIsPtr(v.Value); decided && want != v.IsPtr && err == nil {
				err = fmt.Errorf("value %#x: IsPtr=%v, documented classification says %v (pointers are the values above 512KiB that are positive)", v.Value, v.IsPtr, want)
			}
			if p, ok := seen[v.Value]; ok && p != v.IsPtr && err == nil {
				err = fmt.Errorf("value %#x is pointer-like in one place and not in another", v.Value)
			}
			seen[v.Value] = v.IsPtr
		}
	}
	for _, g := range gs {
		for i := range g.Stack.Calls {
			walk(&g.Stack.Calls[i].Args)
		}
	}
	return err
}

// Spans returns, for every goroutine, the byte range [start, end) of its text within
// Print(): header line through its last frame/creator line including that line's EOL.
func (d *DumpM) Spans() [][2]int {
	lines := d.Lines()
	var spans [][2]int
	off := 0
	hdr := []byte(d.Indent + "goroutine ")
	blank1, blank2 := []byte(d.eol()), []byte(d.Indent+d.eol())
	for _, l := range lines {
		isBlank := bytes.Equal(l, blank1) || bytes.Equal(l, blank2)
		switch {
		case isBlank:
		case bytes.HasPrefix(l, hdr) && bytes.HasSuffix(trimEOL(l), []byte("]:")) && (len(spans) == 0 || spans[len(spans)-1][1] != off || true) && isModelHeader(d, l):
			spans = append(spans, [2]int{off, off + len(l)})
		default:
			spans[len(spans)-1][1] = off + len(l)
		}
		off += len(l)
	}
	return spans
}

// isModelHeader tells a goroutine header from a frame line; frame lines printed by the model
// end in ")" (calls), a line number/offset (files) or are markers, never in "]:".
func isModelHeader(d *DumpM, l []byte) bool {
	return refHeader.Match(trimEOL(l))
}
