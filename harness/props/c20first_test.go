package props

// C20/firstuse: the handler under concurrent requests from the very first one. Every case runs
// in a fresh process (the race-built test binary re-executed) whose first pages are rendered
// by N GETs released together; each must be a complete 200 page, and the race detector must
// stay silent (a report makes the child exit 66).

import (
	"bytes"
	"encoding/json"
	"fmt"
	"io"
	"net/http"
	"net/http/httptest"
	"os"
	"os/exec"
	"runtime"
	"strings"
	"sync"
	"testing"

	"github.com/maruel/panicparse/v2/stack/webstack"
	"pgregory.net/rapid"
)

type c20FirstCase struct {
	Reqs  []c20Req // valid GETs, all released at once
	Procs int
}

func c20FirstRun(c *c20FirstCase) error {
	runtime.GOMAXPROCS(c.Procs)
	srv := httptest.NewServer(http.HandlerFunc(webstack.SnapshotHandler))
	defer closeServer(srv)
	client := &http.Client{}
	start := make(chan struct{})
	errs := make([]error, len(c.Reqs))
	var wg sync.WaitGroup
	for i := range c.Reqs {
		wg.Add(1)
		go func(i int) {
			defer wg.Done()
			r := &c.Reqs[i]
			<-start
			resp, err := client.Get(srv.URL + "/debug?" + r.query())
			if err != nil {
				errs[i] = fmt.Errorf("request %d: %v", i, err)
				return
			}
			body, rerr := io.ReadAll(resp.Body)
			resp.Body.Close()
			if rerr != nil {
				errs[i] = fmt.Errorf("request %d: reading the response: %v", i, rerr)
				return
			}
			errs[i] = c20CheckResponse(r, resp.StatusCode, resp.Header.Get("Content-Type"), body, 1, 100000)
		}(i)
	}
	close(start)
	wg.Wait()
	for _, e := range errs {
		if e != nil {
			return e
		}
	}
	return nil
}

// TestHelperFirstGets is the child process of c20FirstOracle.
func TestHelperFirstGets(t *testing.T) {
	p := os.Getenv("VERIF_HELPER_FIRSTGETS")
	if p == "" {
		t.Skip()
	}
	b, err := os.ReadFile(p)
	if err != nil {
		t.Fatal(err)
	}
	var c c20FirstCase
	if err := json.Unmarshal(b, &c); err != nil {
		t.Fatal(err)
	}
	if err := c20FirstRun(&c); err != nil {
		fmt.Printf("FIRSTGETS-FAIL %s\n", strings.ReplaceAll(err.Error(), "\n", " "))
		return
	}
	fmt.Println("FIRSTGETS-OK")
}

func c20FirstOracle(c c20FirstCase) error {
	f, err := os.CreateTemp(os.Getenv("VERIF_WORK"), "gets*.json")
	if err != nil {
		return fmt.Errorf("HARNESS: %v", err)
	}
	defer os.Remove(f.Name())
	b, _ := json.Marshal(c)
	f.Write(b)
	f.Close()
	cmd := exec.Command(os.Args[0], "-test.run", "^TestHelperFirstGets$", "-test.count=1", "-test.timeout=300s")
	env := []string{}
	for _, e := range os.Environ() {
		if !strings.HasPrefix(e, "GORACE=") && !strings.HasPrefix(e, "VERIF_STATS_DIR=") {
			env = append(env, e)
		}
	}
	cmd.Env = append(env, "VERIF_HELPER_FIRSTGETS="+f.Name(), "VERIF_STATS_DIR=", "GORACE=halt_on_error=1 exitcode=66")
	out, err := cmd.CombinedOutput()
	if i := bytes.Index(out, []byte("WARNING: DATA RACE")); i >= 0 {
		return fmt.Errorf("data race when the first requests of a process are served concurrently:\n%s", truncBytes(out[i:], 3000))
	}
	if i := bytes.Index(out, []byte("FIRSTGETS-FAIL ")); i >= 0 {
		return fmt.Errorf("%s", truncBytes(out[i+len("FIRSTGETS-FAIL "):], 2000))
	}
	if err != nil || !bytes.Contains(out, []byte("FIRSTGETS-OK")) {
		if bytes.Contains(out, []byte("panic:")) || bytes.Contains(out, []byte("fatal error:")) {
			return fmt.Errorf("the fresh process crashed: %s", truncBytes(out, 3000))
		}
		return fmt.Errorf("HARNESS: helper process: %v\n%s", err, truncBytes(out, 1500))
	}
	statsFor("C20").count(int64(len(c.Reqs)), int64(len(c.Reqs)))
	return nil
}

var c20First = Check[c20FirstCase]{
	Prop: "C20", Name: "firstuse",
	Gen: func(t *rapid.T) c20FirstCase {
		c := c20FirstCase{Procs: rapid.SampledFrom([]int{2, 4, 16}).Draw(t, "procs")}
		for i, k := 0, rapid.IntRange(2, 8).Draw(t, "nreqs"); i < k; i++ {
			r := c20Req{Method: "GET", Augment: sp(rapid.SampledFrom([]string{"0", "0", "0", "1"}).Draw(t, "augment"))}
			if rapid.Bool().Draw(t, "withSimilarity") {
				r.Similarity = sp(rapid.SampledFrom([]string{"exactflags", "exactlines", "anypointer", "anyvalue"}).Draw(t, "similarity"))
			}
			c.Reqs = append(c.Reqs, r)
		}
		return c
	},
	Oracle: c20FirstOracle,
	Obs: func(c c20FirstCase) Obs {
		return Obs{Nontrivial: false, Classes: []string{"fresh_process_concurrent_first_requests"}, Sample: c}
	},
}

func init() { register(c20First.key(), c20First.Oracle) }
