package props

// C06/disk: path guessing does not remember the disk. A generated layout (Go root, GOPATHs
// with src and module cache, modules) is scanned while nothing of it exists yet, then after it
// has been created, then after it has been removed again; every scan must equal the scan of
// the same dump against a never-seen directory in the same state.

import (
	"bytes"
	"fmt"
	"io"
	"os"
	"path/filepath"
	"reflect"

	"github.com/maruel/panicparse/v2/stack"
	"pgregory.net/rapid"
)

func c06DiskScan(c *c18Case, base string) (*stack.Snapshot, error) {
	truths := c.L.truths(base)
	var refs []string
	for _, t := range truths {
		refs = append(refs, t.Remote)
	}
	var order []int
	for _, k := range c.Order {
		if k < len(truths) {
			order = append(order, k)
		}
	}
	if len(order) == 0 {
		return nil, nil
	}
	d := dumpFor(refs, order)
	opts := &stack.Opts{GuessPaths: true, LocalGOROOT: c.L.localGoroot(base), LocalGOPATHs: c.L.localGopaths(base)}
	var s *stack.Snapshot
	err := guard(func() error {
		var e error
		s, _, e = stack.ScanSnapshot(bytes.NewReader(d.Print()), io.Discard, opts)
		if s == nil {
			return fmt.Errorf("no snapshot (%v)", e)
		}
		return nil
	})
	return s, err
}

func emptyDir(dir string) {
	ents, _ := os.ReadDir(dir)
	for _, e := range ents {
		_ = os.RemoveAll(filepath.Join(dir, e.Name()))
	}
}

func c06DiskOracle(c c18Case) error {
	root, done := scratchDir("c6d")
	defer done()
	// Every module lies below the directory whose states are compared (a module created
	// directly under the file system root would survive emptyDir and belong to no state).
	c.L.Modules = append([]LModule(nil), c.L.Modules...)
	for i := range c.L.Modules {
		c.L.Modules[i].Top = false
	}
	seen := filepath.Join(root, "seen0") // the directory that is scanned in every state
	if err := os.MkdirAll(seen, 0o755); err != nil {
		return fmt.Errorf("HARNESS: %v", err)
	}
	st := statsFor("C06")
	states := []string{"absent", "present", "absent again", "present again"}
	for si, state := range states {
		fresh := filepath.Join(root, fmt.Sprintf("new%02d", si)) // same length as seen0
		if err := os.MkdirAll(fresh, 0o755); err != nil {
			return fmt.Errorf("HARNESS: %v", err)
		}
		if si%2 == 1 {
			if err := c.L.materialise(seen); err != nil {
				return fmt.Errorf("HARNESS: %v", err)
			}
			if err := c.L.materialise(fresh); err != nil {
				return fmt.Errorf("HARNESS: %v", err)
			}
		} else {
			emptyDir(seen)
		}
		got, err := c06DiskScan(&c, seen)
		if err != nil {
			return fmt.Errorf("layout %s: %v", state, err)
		}
		if got == nil {
			return nil
		}
		ref, err := c06DiskScan(&c, fresh)
		if err != nil {
			return fmt.Errorf("layout %s (never-seen directory): %v", state, err)
		}
		renameSnapshotPaths(ref, fresh, seen)
		ref.LocalGOROOT = got.LocalGOROOT
		ref.LocalGOPATHs = got.LocalGOPATHs
		if !reflect.DeepEqual(got, ref) {
			return fmt.Errorf("layout %s: the scan of a directory that was scanned before in another state differs from the scan of a never-seen directory in the same state: %s\n seen:  GOROOT=%q GOPATHs=%v gomods=%v\n fresh: GOROOT=%q GOPATHs=%v gomods=%v", state, snapshotsDiffer(got, ref),
				got.RemoteGOROOT, got.RemoteGOPATHs, got.LocalGomods, ref.RemoteGOROOT, ref.RemoteGOPATHs, ref.LocalGomods)
		}
		_ = os.RemoveAll(fresh)
		st.count(1, 1)
	}
	st.class("disk_state_walks", 1)
	return nil
}

var c06Disk = Check[c18Case]{
	Prop: "C06", Name: "disk",
	Gen: func(t *rapid.T) c18Case {
		c := c18.Gen(t)
		allPresent(&c.L)
		return c
	},
	Oracle: c06DiskOracle,
	Obs: func(c c18Case) Obs {
		return Obs{Nontrivial: false, Classes: []string{"disk_walks"}, Sample: c}
	},
}

func init() { register(c06Disk.key(), c06Disk.Oracle) }
