package props

import (
	"bytes"
	"errors"
	"io"
	"testing/iotest"

	"github.com/maruel/panicparse/v2/stack"
)

// Unrelated calls made between the cases of every generated check: scans that end in unusual
// ways (last data together with io.EOF and text left unread; a reader failure; a parse error;
// a race report followed by text; path guessing and source analysis on the fixture tree). A
// library without hidden state between calls is indifferent to them.
func init() {
	dump := []byte("goroutine 5 [chan receive]:\nmain.f(0xc000012340, {0x1, 0x2})\n\t@FIX@/main.go:6 +0x1f\ncreated by main.g in goroutine 1\n\t@FIX@/main.go:27 +0x2\n\ntrailing text\nmore trailing text\n")
	polluter = func(n int) {
		defer func() { _ = recover() }()
		x := bytes.ReplaceAll(dump, []byte("@FIX@"), []byte(fixtureDir()))
		switch n / 3 % 5 {
		case 0:
			_, _, _ = stack.ScanSnapshot(iotest.DataErrReader(bytes.NewReader(x)), io.Discard, &stack.Opts{})
		case 1:
			_, _, _ = stack.ScanSnapshot(io.MultiReader(bytes.NewReader(x[:40]), iotest.ErrReader(errors.New("pollution: reader failure"))), io.Discard, &stack.Opts{NameArguments: true})
		case 2:
			_, _, _ = stack.ScanSnapshot(bytes.NewReader([]byte("goroutine 1 [running]:\nmain.f({{{{{{{0x1)\nnot a file line\nleft over\n")), io.Discard, &stack.Opts{})
		case 3:
			_, _, _ = stack.ScanSnapshot(iotest.DataErrReader(bytes.NewReader(append(append([]byte{}, raceFixture...), "text after the report\n"...))), io.Discard, &stack.Opts{})
		case 4:
			if s, _, _ := stack.ScanSnapshot(bytes.NewReader(x), io.Discard, &stack.Opts{NameArguments: true, GuessPaths: true, AnalyzeSources: true}); s != nil {
				_ = s.Aggregate(stack.AnyValue)
			}
		}
	}
}
