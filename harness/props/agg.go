package props

// Shared machinery for the aggregation properties (C04, C05, C12, C13, C14): snapshot
// sources and the independent reference partition keys.

import (
	"bytes"
	"fmt"
	"io"
	"sort"
	"strings"

	"github.com/maruel/panicparse/v2/stack"
	"pgregory.net/rapid"
)

var allLevels = []stack.Similarity{stack.ExactFlags, stack.ExactLines, stack.AnyPointer, stack.AnyValue}
var levelNames = map[stack.Similarity]string{stack.ExactFlags: "ExactFlags", stack.ExactLines: "ExactLines", stack.AnyPointer: "AnyPointer", stack.AnyValue: "AnyValue"}

func parseDump(d *DumpM, opts *stack.Opts) (*stack.Snapshot, error) {
	snap, _, err := stack.ScanSnapshot(bytes.NewReader(d.Print()), io.Discard, opts)
	if snap == nil || (err != nil && err != io.EOF) {
		return nil, fmt.Errorf("generated dump does not parse: snapshot=%v err=%v", snap != nil, err)
	}
	if len(snap.Goroutines) != len(d.Gs) {
		return nil, fmt.Errorf("generated dump parses into %d goroutines, model has %d", len(snap.Goroutines), len(d.Gs))
	}
	return snap, nil
}

func cloneArgsS(a stack.Args) stack.Args {
	out := stack.Args{Elided: a.Elided}
	if a.Values != nil {
		out.Values = make([]stack.Arg, len(a.Values))
		for i, v := range a.Values {
			v.Fields = cloneArgsS(v.Fields)
			out.Values[i] = v
		}
	}
	if a.Processed != nil {
		out.Processed = append([]string{}, a.Processed...)
	}
	return out
}

func cloneStackS(s stack.Stack) stack.Stack {
	out := stack.Stack{Elided: s.Elided}
	if s.Calls != nil {
		out.Calls = make([]stack.Call, len(s.Calls))
		for i, c := range s.Calls {
			c.Args = cloneArgsS(c.Args)
			out.Calls[i] = c
		}
	}
	return out
}

func cloneGoroutine(g *stack.Goroutine) *stack.Goroutine {
	out := *g
	out.Stack = cloneStackS(g.Stack)
	out.CreatedBy = cloneStackS(g.CreatedBy)
	return &out
}

func cloneSnapshot(s *stack.Snapshot) *stack.Snapshot {
	out := *s
	out.Goroutines = make([]*stack.Goroutine, len(s.Goroutines))
	for i, g := range s.Goroutines {
		out.Goroutines[i] = cloneGoroutine(g)
	}
	return &out
}

// ---- reference partition keys ------------------------------------------------------------

func argKey(sb *strings.Builder, a *stack.Args, level stack.Similarity) {
	fmt.Fprintf(sb, "(%d", len(a.Values))
	for i := range a.Values {
		v := &a.Values[i]
		if v.IsAggregate {
			sb.WriteString("{")
			argKey(sb, &v.Fields, level)
			sb.WriteString("}")
			continue
		}
		switch level {
		case stack.ExactFlags, stack.ExactLines:
			fmt.Fprintf(sb, "[%v %v %x %s]", v.IsOffsetTooLarge, v.IsPtr, v.Value, v.Name)
		case stack.AnyPointer:
			if v.IsPtr {
				fmt.Fprintf(sb, "[%v ptr]", v.IsOffsetTooLarge)
			} else {
				fmt.Fprintf(sb, "[%v %x]", v.IsOffsetTooLarge, v.Value)
			}
		case stack.AnyValue:
			sb.WriteString("[s]")
		}
		sb.WriteString(",")
	}
	if a.Elided {
		sb.WriteString("...")
	}
	sb.WriteString(")")
}

func stackKey(sb *strings.Builder, s *stack.Stack, level stack.Similarity) {
	fmt.Fprintf(sb, "<%d %v", len(s.Calls), s.Elided)
	for i := range s.Calls {
		c := &s.Calls[i]
		fmt.Fprintf(sb, "|%q %q %d ", c.Func.Complete, c.RemoteSrcPath, c.Line)
		argKey(sb, &c.Args, level)
	}
	sb.WriteString(">")
}

// refKey is the canonical key of a goroutine's similarity class at a level, written from the
// statement of C05 (and the doc comments of the Similarity constants).
func refKey(g *stack.Goroutine, level stack.Similarity) string {
	var sb strings.Builder
	fmt.Fprintf(&sb, "%q ", g.State)
	if level == stack.ExactFlags {
		fmt.Fprintf(&sb, "locked=%v ", g.Locked)
	}
	stackKey(&sb, &g.CreatedBy, level)
	stackKey(&sb, &g.Stack, level)
	return sb.String()
}

// partitionOf returns, per goroutine id, the index of its bucket; an error if ids are lost or
// duplicated (that is C04's business, reported there too).
func partitionOf(a *stack.Aggregated) (map[int]int, error) {
	m := map[int]int{}
	for bi, b := range a.Buckets {
		for _, id := range b.IDs {
			if _, dup := m[id]; dup {
				return nil, fmt.Errorf("goroutine %d is in two buckets", id)
			}
			m[id] = bi
		}
	}
	return m, nil
}

// canonicalPartition renders a partition as a sorted list of sorted id lists.
func canonicalPartition(a *stack.Aggregated) string {
	var parts []string
	for _, b := range a.Buckets {
		ids := append([]int{}, b.IDs...)
		sort.Ints(ids)
		parts = append(parts, fmt.Sprint(ids))
	}
	sort.Strings(parts)
	return strings.Join(parts, ";")
}

// ---- snapshot sources -----------------------------------------------------------------------

func aggDumpOpts(maxG int) DumpOpts {
	return DumpOpts{MinG: min(3, maxG), TypicalG: min(12, maxG), MaxG: maxG, MaxFrames: 5, PoolHeavy: true}
}

// genAggDump: pooled dumps in which equal and nearly equal goroutines are common.
func genAggDump(t *rapid.T, maxG int) DumpM {
	d := genDump(t, aggDumpOpts(maxG))
	// Pooled goroutines differing in sleep/lock only are the interesting merges: make the
	// per-goroutine header attributes vary independently of the stack.
	return d
}

// genAggRaceDump: a race report whose operations share stacks and creation stacks, so that
// aggregating it (the library allows it) merges goroutines with multi-frame creators.
func genAggRace(t *rapid.T) RaceM {
	r := genRace(t, RaceOpts{MaxOps: 4, MaxFrames: 3, Args: true})
	r.CRLF = false
	for i := 1; i < len(r.Ops); i++ {
		if rapid.Bool().Draw(t, "sameOpStack") {
			r.Ops[i].Frames = cloneFrames(r.Ops[0].Frames)
			if sl := scalarSlots(r.Ops[i].Frames); len(sl) > 0 && rapid.Bool().Draw(t, "perturbArg") {
				sl[0].Val = 0xc000000000 + uint64(i)*8
			}
		}
	}
	for i := 1; i < len(r.Secs); i++ {
		if rapid.Bool().Draw(t, "sameSecStack") {
			r.Secs[i].Frames = cloneFrames(r.Secs[0].Frames)
			r.Secs[i].Finished = r.Secs[0].Finished
			if oneIn(t, 4, "creatorDepthDiffers") {
				// the same go statement reached through one more caller
				r.Secs[i].Frames = append(r.Secs[i].Frames, FrameM{Pkg: "main", Name: "outer", File: "/src/outer.go", Line: 3, PCOff: 1})
			} else if len(r.Secs[i].Frames) > 1 && rapid.Bool().Draw(t, "deeperCreatorDiffers") {
				// same go statement, reached through a different caller
				r.Secs[i].Frames[len(r.Secs[i].Frames)-1].Line += 7
			}
		}
	}
	return r
}

// universe16: signature variants differing in the attributes the levels respect or ignore.
func universe16() []GM {
	fr := func(arg *ArgM, line int) []FrameM {
		f := FrameM{Pkg: "main", Name: "f", File: "/a/f.go", Line: line, PCOff: 0x1d}
		if arg != nil {
			f.Args.Items = []ArgM{*arg}
		}
		return []FrameM{f, {Pkg: "main", Name: "g", File: "/a/g.go", Line: 20, PCOff: 0x2a}}
	}
	c1 := &CreatorM{Pkg: "main", Name: "spawn", File: "/a/s.go", Line: 5, PCOff: 3, Parent: 1}
	c2 := &CreatorM{Pkg: "main", Name: "spawn2", File: "/a/s.go", Line: 9, PCOff: 3, Parent: 1}
	pa, pb := &ArgM{Val: 0xc000010000}, &ArgM{Val: 0xc000020000}
	mk := func(state string, arg *ArgM, line int, locked bool, min int, c *CreatorM) GM {
		return GM{State: state, Frames: fr(arg, line), Locked: locked, Minutes: min, Creator: c, ElideAt: -1}
	}
	return []GM{
		mk("chan receive", pa, 10, false, 0, c1),
		mk("chan receive", pb, 10, false, 0, c1),
		mk("chan receive", &ArgM{Val: 5}, 10, false, 0, c1),
		mk("chan receive", &ArgM{Val: 6}, 10, false, 0, c1),
		mk("chan receive", &ArgM{Agg: &ArgListM{Items: []ArgM{*pa}}}, 10, false, 0, c1),
		mk("chan receive", &ArgM{Agg: &ArgListM{Items: []ArgM{*pb}}}, 10, false, 0, c1),
		mk("chan receive", nil, 10, false, 0, c1),
		mk("chan receive", pa, 10, true, 0, c1),
		mk("chan receive", pa, 10, false, 5, c1),
		mk("chan receive", pb, 10, false, 9, c1),
		mk("chan receive", pa, 10, false, 0, c2),
		mk("select", pa, 10, false, 0, c1),
		mk("chan receive", pa, 11, false, 0, c1),
		mk("chan receive", &ArgM{Val: 5}, 10, true, 0, c1),
		mk("chan receive", &ArgM{TooLarge: true}, 10, false, 0, c1),
		mk("chan receive", &ArgM{Val: 512*1024 + 1}, 10, false, 0, c1),
	}
}

// parsedUniverse parses every variant once; members are cloned when a snapshot is assembled.
func parsedUniverse(u []GM, opts *stack.Opts) ([]*stack.Goroutine, error) {
	var out []*stack.Goroutine
	for i := range u {
		g := u[i]
		g.ID = i + 1
		d := DumpM{Gs: []GM{g}, FileIndent: "\t"}
		s, err := parseDump(&d, opts)
		if err != nil {
			return nil, err
		}
		out = append(out, s.Goroutines[0])
	}
	return out, nil
}

// assemble builds a snapshot from universe members: ids 1..n in sequence order (or the given
// ids), First on position first (-1: none).
func assemble(members []*stack.Goroutine, seq []int, ids []int, first int) *stack.Snapshot {
	s := &stack.Snapshot{}
	for i, k := range seq {
		g := cloneGoroutine(members[k])
		g.ID = i + 1
		if ids != nil {
			g.ID = ids[i]
		}
		g.First = i == first
		s.Goroutines = append(s.Goroutines, g)
	}
	return s
}
