package props

// C06/sources and C14/sources: source analysis does not depend on scheduling or on earlier
// calls in the same process.
//
// A generated program (C19's generator) is built and crashed once. Its sources are then
// copied to fresh directories ("first sight" of a file path for the process) and the real
// tracebacks are re-addressed to them:
//
//   - N goroutines scan tracebacks that walk through the same files at the same time; each
//     result must be deep-equal to what the same scan returns afterwards, alone;
//   - the sources then change on disk (deleted, replaced by a revision with other parameter
//     types, restored): every scan must reflect the files as they are *now* - the result of
//     the same scan against a never-seen copy of the same files at a path of the same length.

import (
	"bytes"
	"fmt"
	"io"
	"os"
	"path/filepath"
	"reflect"
	"strings"
	"sync"

	"github.com/maruel/panicparse/v2/stack"
	"pgregory.net/rapid"
)

type c06SrcCase struct {
	P       c19Prog
	Workers int
	Naming  bool
	Steps   []int // source states visited after the concurrent phase: 0 original, 1 deleted, 2.. mutation kinds
}

func copySources(files map[string]string, dir string) error {
	if err := os.MkdirAll(dir, 0o755); err != nil {
		return err
	}
	if err := os.WriteFile(filepath.Join(dir, "go.mod"), []byte("module example.com/crash\n\ngo 1.21\n"), 0o644); err != nil {
		return err
	}
	for name, src := range files {
		if src == "\x00deleted" {
			_ = os.Remove(filepath.Join(dir, name))
			continue
		}
		if err := os.WriteFile(filepath.Join(dir, name), []byte(src), 0o644); err != nil {
			return err
		}
	}
	return nil
}

func scanFull(tb []byte, naming bool) (*stack.Snapshot, error) {
	var s *stack.Snapshot
	err := guard(func() error {
		var e error
		s, _, e = stack.ScanSnapshot(bytes.NewReader(tb), io.Discard, c19OptsNaming(true, naming))
		if s == nil {
			return fmt.Errorf("no snapshot (%v)", e)
		}
		return nil
	})
	return s, err
}

// relocated returns the snapshot with every occurrence of dir a in its paths replaced by b
// (same length), for comparing scans of identical trees at two places.
func relocate(tb []byte, from, to string) []byte {
	return bytes.ReplaceAll(tb, []byte(from), []byte(to))
}

func augmentedFrames(s *stack.Snapshot) int {
	n := 0
	for _, g := range s.Goroutines {
		for i := range g.Stack.Calls {
			if len(g.Stack.Calls[i].Args.Processed) != 0 {
				n++
			}
		}
	}
	return n
}

func snapshotsDiffer(a, b *stack.Snapshot) string {
	if len(a.Goroutines) != len(b.Goroutines) {
		return "different number of goroutines"
	}
	for gi := range a.Goroutines {
		x, y := a.Goroutines[gi], b.Goroutines[gi]
		for ci := range x.Stack.Calls {
			if ci < len(y.Stack.Calls) && !reflect.DeepEqual(x.Stack.Calls[ci], y.Stack.Calls[ci]) {
				return fmt.Sprintf("goroutine %d frame %d %s: %q %s:%d vs %q %s:%d", x.ID, ci, x.Stack.Calls[ci].Func.Name,
					x.Stack.Calls[ci].Args.Processed, x.Stack.Calls[ci].LocalSrcPath, x.Stack.Calls[ci].Line,
					y.Stack.Calls[ci].Args.Processed, y.Stack.Calls[ci].LocalSrcPath, y.Stack.Calls[ci].Line)
			}
		}
		if !reflect.DeepEqual(x, y) {
			return fmt.Sprintf("goroutine %d differs", x.ID)
		}
	}
	if !reflect.DeepEqual(a, b) {
		return "snapshot roots differ"
	}
	return ""
}

func c06SrcOracle(prop string) func(c c06SrcCase) error {
	return func(c c06SrcCase) error {
		st := statsFor(prop)
		build, done := scratchDir("c6s")
		defer done()
		crashes, err := buildAndCrash(&c.P, build)
		if err != nil {
			return err
		}
		orig := c.P.sources()
		// -- concurrent first sight -----------------------------------------------------
		d1 := build + "-a0"
		defer os.RemoveAll(d1)
		if err := copySources(orig, d1); err != nil {
			return fmt.Errorf("HARNESS: %v", err)
		}
		w := max(2, c.Workers)
		got := make([]*stack.Snapshot, w)
		errs := make([]error, w)
		tbs := make([][]byte, w)
		start := make(chan struct{})
		var wg sync.WaitGroup
		for i := 0; i < w; i++ {
			tbs[i] = relocate(crashes[i%len(crashes)].stderr, build, d1)
			wg.Add(1)
			go func(i int) {
				defer wg.Done()
				<-start
				got[i], errs[i] = scanFull(tbs[i], c.Naming)
			}(i)
		}
		close(start)
		wg.Wait()
		aug := 0
		for i := 0; i < w; i++ {
			if errs[i] != nil {
				return fmt.Errorf("concurrent scan %d: %v", i, errs[i])
			}
			alone, err := scanFull(tbs[i], c.Naming)
			if err != nil {
				return fmt.Errorf("sequential scan %d: %v", i, err)
			}
			if d := snapshotsDiffer(got[i], alone); d != "" {
				return fmt.Errorf("%d scans running at the same time over the same source files (first sight of these paths in the process): scan %d differs from the same scan run alone afterwards: %s", w, i, d)
			}
			aug += augmentedFrames(alone)
		}
		if aug == 0 {
			return fmt.Errorf("HARNESS: no frame was augmented at all; the check would be vacuous\n%s", crashes[0].stderr)
		}
		st.count(int64(w), int64(w))
		st.class("concurrent_first_sight_scans", int64(w))
		// -- earlier calls --------------------------------------------------------------
		d2 := build + "-b0" // the tree that is visited repeatedly
		defer os.RemoveAll(d2)
		tb := relocate(crashes[0].stderr, build, d2)
		for si, step := range c.Steps {
			files := map[string]string{}
			for name, src := range orig {
				switch {
				case step == 0:
					files[name] = src
				case step == 1:
					files[name] = "\x00deleted"
				default:
					kind := 2 + (step-2)%(len(mutationNames)-2)
					if m, keep := mutateSource(name, src, kind); keep {
						files[name] = m
					} else {
						files[name] = "\x00deleted"
					}
				}
			}
			if err := copySources(files, d2); err != nil {
				return fmt.Errorf("HARNESS: %v", err)
			}
			seen, err := scanFull(tb, c.Naming)
			if err != nil {
				return fmt.Errorf("step %d: %v", si, err)
			}
			// the same files at a path this process has never looked at
			fresh := fmt.Sprintf("%s-f%d", build, si%10)
			if err := copySources(files, fresh); err != nil {
				os.RemoveAll(fresh)
				return fmt.Errorf("HARNESS: %v", err)
			}
			ref, err := scanFull(relocate(crashes[0].stderr, build, fresh), c.Naming)
			os.RemoveAll(fresh)
			if err != nil {
				return fmt.Errorf("step %d (fresh copy): %v", si, err)
			}
			// compare with the paths mapped back
			refTB := cloneSnapshot(ref)
			renameSnapshotPaths(refTB, fresh, d2)
			if d := snapshotsDiffer(seen, refTB); d != "" {
				return fmt.Errorf("step %d of %v (0 original, 1 deleted, k>=2 a mismatching revision): the scan of a tree visited before differs from the scan of a never-seen copy of the same files: %s", si, c.Steps, d)
			}
			if step == 1 && augmentedFrames(seen) != 0 {
				return fmt.Errorf("step %d: sources deleted, yet %d frames are augmented", si, augmentedFrames(seen))
			}
			st.count(1, 1)
			st.class("revisited_tree_scans", 1)
		}
		return nil
	}
}

func renameSnapshotPaths(s *stack.Snapshot, from, to string) {
	// the directory's base name is unique (MkdirTemp); DirSrc holds only that part
	from, to = filepath.Base(from), filepath.Base(to)
	r := func(p *string) { *p = strings.ReplaceAll(*p, from, to) }
	// a layout whose Go root is also a module of this machine has its "remote" Go root here
	r(&s.RemoteGOROOT)
	m := map[string]string{}
	for k, v := range s.LocalGomods {
		r(&k)
		r(&v)
		m[k] = v
	}
	if s.LocalGomods != nil {
		s.LocalGomods = m
	}
	g := map[string]string{}
	for k, v := range s.RemoteGOPATHs {
		r(&k)
		r(&v)
		g[k] = v
	}
	if s.RemoteGOPATHs != nil {
		s.RemoteGOPATHs = g
	}
	for _, gr := range s.Goroutines {
		for _, st := range []*stack.Stack{&gr.Stack, &gr.CreatedBy} {
			for i := range st.Calls {
				c := &st.Calls[i]
				r(&c.RemoteSrcPath)
				r(&c.LocalSrcPath)
				r(&c.RelSrcPath)
				r(&c.DirSrc)
				r(&c.ImportPath)
			}
		}
	}
}

func genC06Src(t *rapid.T) c06SrcCase {
	c := c06SrcCase{P: genProg(t, n(4, 6)), Workers: rapid.IntRange(4, 12).Draw(t, "workers"), Naming: rapid.Bool().Draw(t, "naming")}
	ns := rapid.IntRange(3, 7).Draw(t, "nsteps")
	for i := 0; i < ns; i++ {
		// absent <-> present transitions matter most (anything remembered about the disk)
		switch rapid.IntRange(0, 3).Draw(t, "stepKind") {
		case 0:
			c.Steps = append(c.Steps, 0)
		case 1:
			c.Steps = append(c.Steps, 1)
		default:
			c.Steps = append(c.Steps, rapid.IntRange(2, len(mutationNames)-1).Draw(t, "step"))
		}
	}
	return c
}

func c06SrcObs(c c06SrcCase) Obs {
	return Obs{Nontrivial: false, Classes: []string{"source_trees"}, Sample: fmt.Sprintf("workers=%d steps=%v", c.Workers, c.Steps)}
}

var c06Src = Check[c06SrcCase]{Prop: "C06", Name: "sources", Gen: genC06Src, Oracle: c06SrcOracle("C06"), Obs: c06SrcObs}
var c14Src = Check[c06SrcCase]{Prop: "C14", Name: "sources", Gen: genC06Src, Oracle: c06SrcOracle("C14"), Obs: c06SrcObs}

func init() {
	register(c06Src.key(), c06Src.Oracle)
	register(c14Src.key(), c14Src.Oracle)
}
