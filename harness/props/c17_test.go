package props

import (
	"bytes"
	"fmt"
	"html/template"
	"sort"
	"strconv"
	"strings"
	"testing"

	"github.com/maruel/panicparse/v2/stack"
	"golang.org/x/net/html"
	"pgregory.net/rapid"
)

// C17 — HTML rendering is injection-safe and complete.

var evilPayloads = []string{
	`<script>alert(1)</script>`, `"><img src=x onerror=alert(2)>`, `' onmouseover='alert(3)`, `javascript:alert(4)`,
	`data:text/html,<script>alert(5)</script>`, `</td></tr></table><h1>x6`, `{{.}}7`, "a b8", "a\x00b9", "\xff\xfe10", `%00%0a11`,
	`@v1.2.3<x>12`, `</style><script>alert(13)</script>`, `--><script>alert(14)</script>`, `&amp;lt;15`, ` sp ace 16 `, `back\slash17`,
	`javascript&colon;alert(18)`, `file:///etc/passwd19`, `//evil.example/x20`, `https://evil.example/21`, `"22`, `'23`, "`24", `<25`, `>26`, `&27`,
	"tab\there28", "new\nline29", "cr\rhere30", `#frag31`, `?q=32`, `a b/c d33`, `é–日本34`, `x" style="display:none35`, `<a href="javascript:alert(36)">`,
	`<!--37`, `]]>38`, `<svg/onload=alert(39)>`, `%3Cscript%3E40`,
}

var evilPaths = []string{
	`github.com/u/r@v1.2.3/f.go`, `github.com/u/r"><b>/f.go`, `github.com/u"x/r@v1"2/f".go`, `github.com/u/r@v0.0.0-20200223170610-d5e6a3e2c0ae/d/f.go`,
	`golang.org/x/net@v0.0.0-20200223170610-d5e6a3e2c0ae/http2/x.go`, `golang.org/x/ne"t<s>/h.go`, `golang.org/y/z/h.go`, `gopkg.in/y.v2@v2.4.0<x>/y.go`,
	`a/vendor/github.com/"x"/y/z.go`, `a/vendor/golang.org/x/<t>/z.go`, `github.com/onlytwo`, `github.com`, `x/@/`, `@`, `javascript:alert(1)/x.go`,
	`github.com/u/r@v1.0.0-rc-1/f.go`, `golang.org/x/net@v0.1.0-alpha-2/h.go`, `github.com/u/r@v2.0.0+incompatible/f.go`, `github.com/u/r@v1.2.3-0.20200223170610-d5e6a3e2c0ae/f.go`,
	`github.com/u/r@v1-2-3/f.go`, `golang.org/x/sys@-/a.go`, `github.com/u/r@/f.go`, `github.com/u/javascript:alert(2)/x.go`, `github.com/u/r@javascript:alert(3)/x.go`, `github.com/u/r@v1 2/x y.go`, `net/http/server.go`, `runtime/proc.go`,
	`github.com/user/re?po#x/f.go`, `golang.org/x/ne?t#y/h.go`, `github.com/us?er/repo/f.go`, `github.com/user/repo@v1?x#y/f.go`, `golang.org/x/net@v0?q/h.go`, `github.com/u/r/what?tab=versions/f.go`, `github.com/u/r/a#b/f.go`,
	`github.com/!burnt!sushi/toml@v0.3.1/x.go`, `github.com/a/b@v1.0.0/sub!/x.go`, `github.com/a!/b/x!.go`, `golang.org/x/net!@v0!/h!`, `!`, `a/!`,
}

// C17Snap is a JSON-serialisable description of a directly constructed snapshot.
type C17Call struct {
	Complete, ImportPath, DirName, Name string
	Exported, Main                      bool
	Remote, Local, Rel, SrcName, DirSrc string
	CallImportPath                      string
	Line                                int
	Loc                                 int
	Args                                ArgListM
	ArgNames                            []string // names for the scalar args in order ("" = none)
	Processed                           []string
}

type C17G struct {
	ID        int
	State     string
	Min, Max  int
	Locked    bool
	Calls     []C17Call
	Elided    bool
	Created   []C17Call
	RaceAddr  uint64
	RaceWrite bool
}

type C17Snap struct {
	Gs            []C17G
	LocalGOROOT   string
	RemoteGOROOT  string
	LocalGOPATHs  []string
	RemoteGOPATHs map[string]string
	LocalGomods   map[string]string
	Aggregated    bool
	Level         int
}

func (c *C17Call) build() stack.Call {
	out := stack.Call{
		Func:          stack.Func{Complete: c.Complete, ImportPath: c.ImportPath, DirName: c.DirName, Name: c.Name, IsExported: c.Exported, IsPkgMain: c.Main},
		RemoteSrcPath: c.Remote, LocalSrcPath: c.Local, RelSrcPath: c.Rel, SrcName: c.SrcName, DirSrc: c.DirSrc, ImportPath: c.CallImportPath,
		Line: c.Line, Location: stack.Location(c.Loc),
	}
	out.Args = expArgs(&c.Args)
	k := 0
	var name func(a *stack.Args)
	name = func(a *stack.Args) {
		for i := range a.Values {
			if a.Values[i].IsAggregate {
				name(&a.Values[i].Fields)
			} else {
				if k < len(c.ArgNames) {
					a.Values[i].Name = c.ArgNames[k]
				}
				a.Values[i].IsPtr = a.Values[i].Value > 512*1024 && a.Values[i].Value < 1<<63-1
				k++
			}
		}
	}
	name(&out.Args)
	out.Args.Processed = c.Processed
	return out
}

func (s *C17Snap) build() *stack.Snapshot {
	snap := &stack.Snapshot{LocalGOROOT: s.LocalGOROOT, RemoteGOROOT: s.RemoteGOROOT, LocalGOPATHs: s.LocalGOPATHs, RemoteGOPATHs: s.RemoteGOPATHs, LocalGomods: s.LocalGomods}
	for i := range s.Gs {
		g := &s.Gs[i]
		o := &stack.Goroutine{ID: g.ID, First: i == 0, RaceAddr: g.RaceAddr, RaceWrite: g.RaceWrite}
		o.State, o.SleepMin, o.SleepMax, o.Locked = g.State, g.Min, g.Max, g.Locked
		for j := range g.Calls {
			o.Stack.Calls = append(o.Stack.Calls, g.Calls[j].build())
		}
		o.Stack.Elided = g.Elided
		for j := range g.Created {
			o.CreatedBy.Calls = append(o.CreatedBy.Calls, g.Created[j].build())
		}
		snap.Goroutines = append(snap.Goroutines, o)
	}
	return snap
}

// mapStrings applies f to every dump-derived string of the description.
func (s *C17Snap) mapStrings(f func(string) string) C17Snap {
	out := *s
	out.LocalGOROOT, out.RemoteGOROOT = f(s.LocalGOROOT), f(s.RemoteGOROOT)
	out.LocalGOPATHs = nil
	for _, p := range s.LocalGOPATHs {
		out.LocalGOPATHs = append(out.LocalGOPATHs, f(p))
	}
	mm := func(m map[string]string) map[string]string {
		if m == nil {
			return nil
		}
		o := map[string]string{}
		for k, v := range m {
			o[f(k)] = f(v)
		}
		return o
	}
	out.RemoteGOPATHs, out.LocalGomods = mm(s.RemoteGOPATHs), mm(s.LocalGomods)
	mc := func(cs []C17Call) []C17Call {
		var o []C17Call
		for _, c := range cs {
			c.Complete, c.ImportPath, c.DirName, c.Name = f(c.Complete), f(c.ImportPath), f(c.DirName), f(c.Name)
			c.Remote, c.Local, c.Rel, c.SrcName, c.DirSrc, c.CallImportPath = f(c.Remote), f(c.Local), f(c.Rel), f(c.SrcName), f(c.DirSrc), f(c.CallImportPath)
			var an, pr []string
			for _, x := range c.ArgNames {
				an = append(an, f(x))
			}
			for _, x := range c.Processed {
				pr = append(pr, f(x))
			}
			c.ArgNames, c.Processed = an, pr
			o = append(o, c)
		}
		return o
	}
	out.Gs = nil
	for _, g := range s.Gs {
		g.State = f(g.State)
		g.Calls, g.Created = mc(g.Calls), mc(g.Created)
		out.Gs = append(out.Gs, g)
	}
	return out
}

// benignTwin replaces every distinct string by a distinct harmless token (empty stays empty,
// equal stays equal), so that only the template's structure remains.
func (s *C17Snap) benignTwin() C17Snap {
	m := map[string]string{}
	return s.mapStrings(func(x string) string {
		if x == "" {
			return ""
		}
		if v, ok := m[x]; ok {
			return v
		}
		v := "benign" + strconv.Itoa(len(m))
		m[x] = v
		return v
	})
}

func render(s *C17Snap) ([]byte, *stack.Snapshot, *stack.Aggregated, error) {
	snap := s.build()
	var b bytes.Buffer
	var ag *stack.Aggregated
	var err error
	if s.Aggregated && !snap.IsRace() {
		ag = snap.Aggregate(allLevels[s.Level%4])
		err = ag.ToHTML(&b, template.HTML(""))
	} else {
		err = snap.ToHTML(&b, template.HTML(""))
	}
	return b.Bytes(), snap, ag, err
}

// renderTwin deep-copies what was rendered, maps every string to a distinct harmless token
// (empty stays empty, equal stays equal) and renders it again.
func renderTwin(snap *stack.Snapshot, ag *stack.Aggregated) ([]byte, error) {
	m := map[string]string{}
	f := func(x string) string {
		if x == "" {
			return ""
		}
		if v, ok := m[x]; ok {
			return v
		}
		v := "benign" + strconv.Itoa(len(m))
		m[x] = v
		return v
	}
	var fa func(a *stack.Args)
	fa = func(a *stack.Args) {
		for i := range a.Values {
			a.Values[i].Name = f(a.Values[i].Name)
			fa(&a.Values[i].Fields)
		}
		for i := range a.Processed {
			a.Processed[i] = f(a.Processed[i])
		}
	}
	fs := func(st *stack.Stack) {
		for i := range st.Calls {
			c := &st.Calls[i]
			c.Func.Complete, c.Func.ImportPath, c.Func.DirName, c.Func.Name = f(c.Func.Complete), f(c.Func.ImportPath), f(c.Func.DirName), f(c.Func.Name)
			c.RemoteSrcPath, c.LocalSrcPath, c.RelSrcPath, c.SrcName, c.DirSrc, c.ImportPath = f(c.RemoteSrcPath), f(c.LocalSrcPath), f(c.RelSrcPath), f(c.SrcName), f(c.DirSrc), f(c.ImportPath)
			fa(&c.Args)
		}
	}
	fsig := func(sg *stack.Signature) {
		sg.State = f(sg.State)
		fs(&sg.Stack)
		fs(&sg.CreatedBy)
	}
	ts := cloneSnapshot(snap)
	ts.LocalGOROOT, ts.RemoteGOROOT = f(ts.LocalGOROOT), f(ts.RemoteGOROOT)
	ts.LocalGOPATHs = nil
	for _, p := range snap.LocalGOPATHs {
		ts.LocalGOPATHs = append(ts.LocalGOPATHs, f(p))
	}
	mm := func(in map[string]string) map[string]string {
		if in == nil {
			return nil
		}
		o := map[string]string{}
		for _, k := range sortedKeys(in) {
			o[f(k)] = f(in[k])
		}
		return o
	}
	ts.RemoteGOPATHs, ts.LocalGomods = mm(snap.RemoteGOPATHs), mm(snap.LocalGomods)
	for _, g := range ts.Goroutines {
		fsig(&g.Signature)
	}
	var b bytes.Buffer
	if ag == nil {
		err := ts.ToHTML(&b, template.HTML(""))
		return b.Bytes(), err
	}
	ta := &stack.Aggregated{Snapshot: ts}
	for _, bk := range ag.Buckets {
		nb := &stack.Bucket{IDs: bk.IDs, First: bk.First}
		nb.Signature = bk.Signature
		nb.Signature.Stack = cloneStackS(bk.Signature.Stack)
		nb.Signature.CreatedBy = cloneStackS(bk.Signature.CreatedBy)
		fsig(&nb.Signature)
		ta.Buckets = append(ta.Buckets, nb)
	}
	err := ta.ToHTML(&b, template.HTML(""))
	return b.Bytes(), err
}

type tokSkel struct {
	typ   html.TokenType
	tag   string
	attrs string
}

func skeleton(doc []byte) ([]tokSkel, []html.Attribute, error) {
	z := html.NewTokenizer(bytes.NewReader(doc))
	var sk []tokSkel
	var attrs []html.Attribute
	for {
		tt := z.Next()
		if tt == html.ErrorToken {
			if z.Err().Error() == "EOF" {
				return sk, attrs, nil
			}
			return nil, nil, z.Err()
		}
		if tt == html.TextToken {
			continue // character data is compared separately
		}
		tok := z.Token()
		var names []string
		for _, a := range tok.Attr {
			names = append(names, a.Key)
			attrs = append(attrs, a)
		}
		sort.Strings(names)
		tag := tok.Data
		if tt == html.CommentToken || tt == html.DoctypeToken {
			tag = ""
		}
		sk = append(sk, tokSkel{tt, tag, strings.Join(names, ",")})
	}
}

func normText(s string) string {
	s = strings.ToValidUTF8(s, "�")
	s = strings.ReplaceAll(s, "\x00", "�")
	s = strings.ReplaceAll(s, "\r\n", "\n")
	s = strings.ReplaceAll(s, "\r", "\n")
	return s
}

func textOf(n *html.Node) string {
	var sb strings.Builder
	var walk func(*html.Node)
	walk = func(n *html.Node) {
		if n.Type == html.TextNode {
			sb.WriteString(n.Data)
		}
		for c := n.FirstChild; c != nil; c = c.NextSibling {
			walk(c)
		}
	}
	walk(n)
	return sb.String()
}

func attrOf(n *html.Node, k string) string {
	for _, a := range n.Attr {
		if a.Key == k {
			return a.Val
		}
	}
	return ""
}

func findAll(n *html.Node, pred func(*html.Node) bool) []*html.Node {
	var out []*html.Node
	var walk func(*html.Node)
	walk = func(n *html.Node) {
		if n.Type == html.ElementNode && pred(n) {
			out = append(out, n)
		}
		for c := n.FirstChild; c != nil; c = c.NextSibling {
			walk(c)
		}
	}
	walk(n)
	return out
}

func hasClass(n *html.Node, c string) bool {
	for _, f := range strings.Fields(attrOf(n, "class")) {
		if f == c {
			return true
		}
	}
	return false
}

// c17Header: what the header line of a goroutine or bucket must show besides the state: the
// sleep range, the thread lock and the creator frame (file:line, package.function, and in its
// tooltip the source path and the complete symbol).
func c17Header(h1, table *html.Node, sig *stack.Signature) error {
	// the header is the <h1> and what follows it up to the stack table
	span := func(class string) []*html.Node {
		var out []*html.Node
		for n := h1; n != nil && n != table; n = n.NextSibling {
			out = append(out, findAll(n, func(m *html.Node) bool { return m.Data == "span" && hasClass(m, class) })...)
		}
		return out
	}
	sl := span("sleep")
	switch {
	case sig.SleepMax == 0 && len(sl) != 0:
		return fmt.Errorf("a sleep range is shown but the signature has none")
	case sig.SleepMax != 0:
		want := fmt.Sprintf("[%d mins]", sig.SleepMax)
		if sig.SleepMin != sig.SleepMax {
			want = fmt.Sprintf("[%d~%d mins]", sig.SleepMin, sig.SleepMax)
		}
		if len(sl) != 1 || normText(textOf(sl[0])) != want {
			return fmt.Errorf("sleep range %s not shown (%d sleep spans)", want, len(sl))
		}
	}
	if lk := span("locked"); (len(lk) == 1) != sig.Locked || len(lk) > 1 {
		return fmt.Errorf("locked=%v but %d [locked] marks", sig.Locked, len(lk))
	}
	cr := span("created")
	if len(sig.CreatedBy.Calls) == 0 {
		if len(cr) != 0 {
			return fmt.Errorf("a creator is shown but the signature has none")
		}
		return nil
	}
	if len(cr) != 1 {
		return fmt.Errorf("the creator frame is not shown (%d 'created' spans)", len(cr))
	}
	call := &sig.CreatedBy.Calls[0]
	txt := normText(textOf(cr[0]))
	for _, w := range []string{fmt.Sprintf("%s:%d", call.SrcName, call.Line), call.Func.DirName + "." + call.Func.Name, call.RemoteSrcPath, call.Func.Complete} {
		if !strings.Contains(txt, normText(w)) {
			return fmt.Errorf("the creator frame does not carry %q: %q", w, txt)
		}
	}
	return nil
}

func c17Oracle(c C17Snap) error {
	doc, snap, ag, err := render(&c)
	if err != nil {
		return fmt.Errorf("ToHTML failed: %v", err)
	}
	// The benign twin is made from the very structure that was rendered (same buckets in
	// the same order), with every dump-derived string replaced by a harmless token.
	tdoc, terr := renderTwin(snap, ag)
	if terr != nil {
		return fmt.Errorf("ToHTML failed on the benign twin: %v", terr)
	}
	sk, attrs, err := skeleton(doc)
	if err != nil {
		return fmt.Errorf("document does not tokenise: %v", err)
	}
	tsk, _, _ := skeleton(tdoc)
	if len(sk) != len(tsk) {
		return fmt.Errorf("dump content changed the document structure: %d markup tokens, the benign twin has %d", len(sk), len(tsk))
	}
	for i := range sk {
		if sk[i] != tsk[i] {
			return fmt.Errorf("dump content changed the document structure at markup token %d: <%s %s> vs benign <%s %s>", i, sk[i].tag, sk[i].attrs, tsk[i].tag, tsk[i].attrs)
		}
	}
	for _, a := range attrs {
		if strings.HasPrefix(strings.ToLower(a.Key), "on") {
			return fmt.Errorf("event handler attribute %q", a.Key)
		}
		if a.Key == "href" || a.Key == "src" {
			v := a.Val
			if v == "" {
				continue
			}
			if !strings.HasPrefix(v, "https://") && !strings.HasPrefix(v, "file:///") && !strings.HasPrefix(v, "data:image/gif;base64,") {
				return fmt.Errorf("link target with a scheme of its own: %s=%q", a.Key, v)
			}
			if strings.ContainsAny(v, "\"<> \t\n\r") {
				return fmt.Errorf("link target not URL-escaped: %s=%q", a.Key, v)
			}
			// The pages link to files, packages and source lines: a path and at most one
			// fragment the template adds itself. A '?' or a second '#' can only be dump text
			// that was not escaped, and cuts the path short.
			if !strings.HasPrefix(v, "data:") && (strings.Contains(v, "?") || strings.Count(v, "#") > 1) {
				return fmt.Errorf("link target with a query or fragment of the dump's own: %s=%q", a.Key, v)
			}
		}
	}
	// Character data round trip and completeness, on the parsed tree.
	root, err := html.Parse(bytes.NewReader(doc))
	if err != nil {
		return fmt.Errorf("document does not parse: %v", err)
	}
	h1s := findAll(root, func(n *html.Node) bool { return n.Data == "h1" })
	tables := findAll(root, func(n *html.Node) bool { return n.Data == "table" && hasClass(n, "stack") })
	type unit struct {
		sig   *stack.Signature
		count int
	}
	var units []unit
	if ag != nil {
		for _, b := range ag.Buckets {
			units = append(units, unit{&b.Signature, len(b.IDs)})
		}
	} else {
		for _, g := range snap.Goroutines {
			units = append(units, unit{&g.Signature, 1})
		}
	}
	if len(h1s) != len(units) || len(tables) != len(units) {
		return fmt.Errorf("%d buckets/goroutines but %d <h1> and %d stack tables", len(units), len(h1s), len(tables))
	}
	total := 0
	for i, u := range units {
		st := findAll(h1s[i], func(n *html.Node) bool { return n.Data == "span" && hasClass(n, "state") })
		if len(st) != 1 || normText(textOf(st[0])) != normText(u.sig.State) {
			got := ""
			if len(st) == 1 {
				got = textOf(st[0])
			}
			return fmt.Errorf("unit %d: state text %q does not round-trip (got %q)", i, u.sig.State, got)
		}
		if e := c17Header(h1s[i], tables[i], u.sig); e != nil {
			return fmt.Errorf("unit %d: %v", i, e)
		}
		if ag != nil {
			f := strings.Fields(textOf(h1s[i]))
			if len(f) < 3 {
				return fmt.Errorf("unit %d: header %q", i, textOf(h1s[i]))
			}
			k, err := strconv.Atoi(f[2])
			if err != nil || k != u.count {
				return fmt.Errorf("unit %d: header shows %q routines, bucket has %d", i, f[2], u.count)
			}
			total += k
		} else {
			total++
		}
		rows := findAll(tables[i], func(n *html.Node) bool {
			return n.Data == "tr" && len(findAll(n, func(m *html.Node) bool { return m.Data == "td" })) > 0
		})
		want := len(u.sig.Stack.Calls)
		if u.sig.Stack.Elided {
			want++
		}
		if len(rows) != want {
			return fmt.Errorf("unit %d: %d stack rows for %d frames (elided=%v)", i, len(rows), len(u.sig.Stack.Calls), u.sig.Stack.Elided)
		}
		for ci := range u.sig.Stack.Calls {
			call := &u.sig.Stack.Calls[ci]
			tds := findAll(rows[ci], func(n *html.Node) bool { return n.Data == "td" })
			if len(tds) != 4 {
				return fmt.Errorf("unit %d frame %d: %d cells", i, ci, len(tds))
			}
			as := findAll(tds[1], func(n *html.Node) bool { return n.Data == "a" })
			if len(as) != 1 || normText(textOf(as[0])) != normText(call.Func.DirName) {
				return fmt.Errorf("unit %d frame %d: package cell does not round-trip %q", i, ci, call.Func.DirName)
			}
			as = findAll(tds[2], func(n *html.Node) bool { return n.Data == "a" })
			if len(as) != 1 || normText(textOf(as[0])) != normText(fmt.Sprintf("%s:%d", call.SrcName, call.Line)) {
				return fmt.Errorf("unit %d frame %d: file cell does not round-trip %q", i, ci, call.SrcName)
			}
			tip := findAll(tds[2], func(n *html.Node) bool { return n.Data == "span" && hasClass(n, "tooltip") })
			if len(tip) != 1 || !strings.Contains(normText(textOf(tip[0])), normText(call.RemoteSrcPath)) || !strings.Contains(normText(textOf(tip[0])), normText(call.Func.Complete)) {
				return fmt.Errorf("unit %d frame %d: tooltip does not carry the source path / function %q %q", i, ci, call.RemoteSrcPath, call.Func.Complete)
			}
			as = findAll(tds[3], func(n *html.Node) bool { return n.Data == "a" })
			if len(as) != 1 || normText(textOf(as[0])) != normText(call.Func.Name) {
				return fmt.Errorf("unit %d frame %d: function cell does not round-trip %q", i, ci, call.Func.Name)
			}
			argSpan := findAll(tds[3], func(n *html.Node) bool { return n.Data == "span" && hasClass(n, "args") })
			if len(argSpan) != 1 {
				return fmt.Errorf("unit %d frame %d: no argument span", i, ci)
			}
			var wantArgs []string
			if len(call.Args.Processed) != 0 {
				wantArgs = call.Args.Processed
			} else {
				for k := range call.Args.Values {
					wantArgs = append(wantArgs, call.Args.Values[k].String())
				}
			}
			w := strings.Join(wantArgs, ", ")
			if call.Args.Elided {
				if len(wantArgs) > 0 {
					w += ", "
				}
				w += "…"
			}
			if normText(textOf(argSpan[0])) != normText(w) {
				return fmt.Errorf("unit %d frame %d: arguments %q rendered as %q", i, ci, w, textOf(argSpan[0]))
			}
		}
	}
	if total != len(snap.Goroutines) {
		return fmt.Errorf("header counts add up to %d, snapshot has %d goroutines", total, len(snap.Goroutines))
	}
	return nil
}

func genEvil(t *rapid.T, used map[string]bool) string {
	switch rapid.IntRange(0, 9).Draw(t, "evilKind") {
	case 0:
		return ""
	case 1:
		return rapid.SampledFrom([]string{"main", "running", "net/http", "foo.go", "/a/b.go"}).Draw(t, "benign")
	case 2:
		p := rapid.SampledFrom(evilPayloads).Draw(t, "p1") + rapid.SampledFrom(evilPayloads).Draw(t, "p2")
		used[p] = true
		return p
	case 3:
		return strings.Repeat(rapid.SampledFrom(evilPayloads).Draw(t, "p"), 200)
	}
	p := rapid.SampledFrom(evilPayloads).Draw(t, "p")
	used[p] = true
	return p
}

// genHostPath builds a source path the link code might know how to turn into a URL: a code
// host, one to four path elements, a file; a version may sit on any element (a module in a
// sub-directory of its repository has it on a later one) or nowhere (a checkout in GOPATH/src,
// a vendored copy); exactly one element carries text that means something in a URL or in HTML.
func genHostPath(t *rapid.T, used map[string]bool) string {
	host := rapid.SampledFrom([]string{"github.com", "golang.org/x", "gopkg.in", "go.uber.org", "gitlab.com", "bitbucket.org", "k8s.io", "google.golang.org", "example.com"}).Draw(t, "codeHost")
	n := rapid.IntRange(1, 4).Draw(t, "hostElems")
	var el []string
	for i := 0; i < n; i++ {
		el = append(el, rapid.SampledFrom([]string{"u", "r", "tools", "gopls", "yaml.v2", "pkg.v3", "net", "cmd", "go-yaml", "v2"}).Draw(t, "hostElem"))
	}
	el = append(el, rapid.SampledFrom([]string{"f.go", "decode.go", "x.s"}).Draw(t, "hostFile"))
	at := rapid.IntRange(0, len(el)-1).Draw(t, "payloadAt")
	pay := rapid.SampledFrom([]string{"?q=1#ls", "?tab=x#<b>", "#x", "?", "\"><b>", "'", "<i>", "%3f%23", " ", "&amp;"}).Draw(t, "urlPayload")
	if rapid.Bool().Draw(t, "payloadInside") && len(el[at]) > 1 {
		el[at] = el[at][:1] + pay + el[at][1:]
	} else {
		el[at] += pay
	}
	if v := rapid.IntRange(-1, len(el)-2).Draw(t, "versionAt"); v >= 0 {
		el[v] += "@" + rapid.SampledFrom([]string{"v0.11.0", "v2.4.0", "v0.0.0-20200223170610-d5e6a3e2c0ae", "v2.0.0+incompatible", "v1.0.0-rc.1"}).Draw(t, "hostVersion")
	}
	p := rapid.SampledFrom([]string{"", "", "a/vendor/", "/home/u/go/pkg/mod/", "/home/u/go/src/"}).Draw(t, "hostPrefix") + host + "/" + strings.Join(el, "/")
	used["path:"+p] = true
	return p
}

func genEvilPath(t *rapid.T, used map[string]bool) string {
	if oneIn(t, 3, "plainEvil") {
		return genEvil(t, used)
	}
	if oneIn(t, 3, "hostPath") {
		return genHostPath(t, used)
	}
	p := rapid.SampledFrom(evilPaths).Draw(t, "path")
	if oneIn(t, 3, "pathPlusPayload") {
		p += rapid.SampledFrom(evilPayloads).Draw(t, "pp")
	}
	used["path:"+p] = true
	return p
}

func genC17Call(t *rapid.T, used map[string]bool, fields map[string]bool) C17Call {
	var c C17Call
	set := func(name string, v string) string {
		if v != "" {
			fields[name] = true
		}
		return v
	}
	c.Complete = set("Complete", genEvil(t, used))
	c.ImportPath = set("Func.ImportPath", genEvilPath(t, used))
	c.DirName = set("DirName", genEvil(t, used))
	c.Name = set("Name", genEvil(t, used))
	if oneIn(t, 3, "methodShape") {
		// the shapes the documentation-link code looks at: "(*T).M", "(T).M", with the
		// payload as receiver or as method name, and receivers that contain parentheses
		switch rapid.IntRange(0, 5).Draw(t, "methodKind") {
		case 0:
			c.Name = "(*" + c.Name + ").Serve"
		case 1:
			c.Name = "(" + c.Name + ").Serve"
		case 2:
			c.Name = "(*T)." + c.Name
		case 3:
			c.Name = "(*struct { F func() })." + c.Name
		case 4:
			c.Name = "(*T[...])." + c.Name + "-fm"
		default:
			c.Name = "(" + c.Name
		}
		fields["Name"] = true
	}
	c.Exported, c.Main = rapid.Bool().Draw(t, "exported"), oneIn(t, 5, "main")
	c.Remote = set("Remote", genEvilPath(t, used))
	c.Local = set("Local", rapid.SampledFrom([]string{"", "", c.Remote, genEvilPath(t, used)}).Draw(t, "local"))
	c.Rel = set("Rel", genEvilPath(t, used))
	c.SrcName = set("SrcName", genEvil(t, used))
	c.DirSrc = set("DirSrc", genEvil(t, used))
	c.CallImportPath = set("ImportPath", genEvilPath(t, used))
	c.Line = rapid.IntRange(0, 99999).Draw(t, "line")
	c.Loc = rapid.IntRange(0, 4).Draw(t, "loc")
	budget := 6
	c.Args = genArgList(t, &pools{}, 3, &budget)
	for i, k := 0, rapid.IntRange(0, 3).Draw(t, "nnames"); i < k; i++ {
		c.ArgNames = append(c.ArgNames, set("ArgName", genEvil(t, used)))
	}
	if oneIn(t, 4, "processed") {
		for i, k := 0, rapid.IntRange(1, 3).Draw(t, "nproc"); i < k; i++ {
			c.Processed = append(c.Processed, set("Processed", genEvil(t, used)))
		}
	}
	return c
}

func genC17(t *rapid.T) (C17Snap, int, int) {
	used, fields := map[string]bool{}, map[string]bool{}
	var s C17Snap
	s.Aggregated = rapid.Bool().Draw(t, "aggregated")
	s.Level = rapid.IntRange(0, 3).Draw(t, "level")
	race := oneIn(t, 6, "race")
	ng := rapid.IntRange(1, 4).Draw(t, "ng")
	for i := 0; i < ng; i++ {
		g := C17G{ID: i + 1, State: genEvil(t, used)}
		if g.State != "" {
			fields["State"] = true
		}
		if oneIn(t, 3, "sleep") {
			g.Min = rapid.IntRange(0, 5).Draw(t, "min")
			g.Max = g.Min + rapid.IntRange(0, 5).Draw(t, "dmax")
		}
		g.Locked = oneIn(t, 4, "locked")
		g.Elided = oneIn(t, 4, "elided")
		for j, k := 0, rapid.IntRange(0, 3).Draw(t, "ncalls"); j < k; j++ {
			g.Calls = append(g.Calls, genC17Call(t, used, fields))
		}
		if oneIn(t, 2, "created") {
			g.Created = append(g.Created, genC17Call(t, used, fields))
		}
		if race {
			g.RaceAddr = uint64(rapid.IntRange(1, 1<<40).Draw(t, "raceAddr"))
			g.RaceWrite = rapid.Bool().Draw(t, "raceWrite")
		}
		s.Gs = append(s.Gs, g)
	}
	s.LocalGOROOT, s.RemoteGOROOT = genEvil(t, used), genEvil(t, used)
	if oneIn(t, 3, "sameRoot") {
		s.RemoteGOROOT = s.LocalGOROOT
	}
	for i, k := 0, rapid.IntRange(0, 2).Draw(t, "ngp"); i < k; i++ {
		s.LocalGOPATHs = append(s.LocalGOPATHs, genEvil(t, used))
	}
	if oneIn(t, 2, "gomods") {
		s.LocalGomods = map[string]string{genEvil(t, used): genEvil(t, used), "/m": genEvil(t, used)}
	}
	if oneIn(t, 3, "remoteGopaths") {
		s.RemoteGOPATHs = map[string]string{genEvil(t, used): genEvil(t, used)}
	}
	return s, len(used), len(fields)
}

type c17Wrap struct {
	S       C17Snap
	Kinds   int
	NFields int
}

var c17Direct = Check[c17Wrap]{
	Prop: "C17", Name: "constructed",
	Gen: func(t *rapid.T) c17Wrap {
		s, k, f := genC17(t)
		return c17Wrap{S: s, Kinds: k, NFields: f}
	},
	Oracle: func(c c17Wrap) error { return c17Oracle(c.S) },
	Obs: func(c c17Wrap) Obs {
		url := false
		for _, g := range c.S.Gs {
			for _, cl := range append(append([]C17Call{}, g.Calls...), g.Created...) {
				if cl.Rel != "" || cl.Local != "" || cl.CallImportPath != "" {
					url = true
				}
			}
		}
		cls := []string{}
		if c.S.Aggregated {
			cls = append(cls, "aggregated")
		} else {
			cls = append(cls, "snapshot")
		}
		if len(c.S.Gs) > 0 && c.S.Gs[0].RaceAddr != 0 {
			cls = append(cls, "race")
		}
		return Obs{Nontrivial: c.Kinds >= 5 && c.NFields >= 4 && url, Digest: digestOf(c.S), Classes: cls, Sample: c.S}
	},
}

// ---- parsed dumps carrying payloads as far as the grammar admits them ---------------------

type c17ParsedCase struct {
	D     DumpM
	Level int
	Agg   bool
}

func c17ParsedOracle(c c17ParsedCase) error {
	snap, err := parseDump(&c.D, &stack.Opts{NameArguments: true})
	if err != nil {
		return err
	}
	// Re-express the parsed snapshot as a description so that the same oracle applies.
	var s C17Snap
	s.Aggregated, s.Level = c.Agg, c.Level
	conv := func(cs []stack.Call) []C17Call {
		var out []C17Call
		for _, x := range cs {
			cc := C17Call{Complete: x.Func.Complete, ImportPath: x.Func.ImportPath, DirName: x.Func.DirName, Name: x.Func.Name, Exported: x.Func.IsExported, Main: x.Func.IsPkgMain,
				Remote: x.RemoteSrcPath, Local: x.LocalSrcPath, Rel: x.RelSrcPath, SrcName: x.SrcName, DirSrc: x.DirSrc, CallImportPath: x.ImportPath, Line: x.Line, Loc: int(x.Location)}
			var conva func(a *stack.Args) ArgListM
			conva = func(a *stack.Args) ArgListM {
				o := ArgListM{Dots: a.Elided}
				for i := range a.Values {
					v := &a.Values[i]
					switch {
					case v.IsAggregate:
						sub := conva(&v.Fields)
						o.Items = append(o.Items, ArgM{Agg: &sub})
					case v.IsOffsetTooLarge:
						o.Items = append(o.Items, ArgM{TooLarge: true})
					default:
						o.Items = append(o.Items, ArgM{Val: v.Value, Inacc: v.IsInaccurate})
						cc.ArgNames = append(cc.ArgNames, v.Name)
					}
				}
				return o
			}
			cc.Args = conva(&x.Args)
			out = append(out, cc)
		}
		return out
	}
	for _, g := range snap.Goroutines {
		s.Gs = append(s.Gs, C17G{ID: g.ID, State: g.State, Min: g.SleepMin, Max: g.SleepMax, Locked: g.Locked, Calls: conv(g.Stack.Calls), Elided: g.Stack.Elided, Created: conv(g.CreatedBy.Calls)})
	}
	return c17Oracle(s)
}

var c17Parsed = Check[c17ParsedCase]{
	Prop: "C17", Name: "parsed",
	Gen: func(t *rapid.T) c17ParsedCase {
		d := genDump(t, DumpOpts{MaxG: 6, MaxFrames: 4, PoolHeavy: true})
		clean := func(p string) string {
			return strings.NewReplacer("\n", "", "\r", "", "]", "", ", ", ",").Replace(p)
		}
		for gi := range d.Gs {
			g := &d.Gs[gi]
			if oneIn(t, 2, "evilState") {
				if s := clean(rapid.SampledFrom(evilPayloads).Draw(t, "st")); s != "" {
					g.State = s
				}
			}
			for fi := range g.Frames {
				f := &g.Frames[fi]
				if oneIn(t, 2, "evilPkg") {
					f.Pkg = strings.ReplaceAll(clean(rapid.SampledFrom(evilPayloads).Draw(t, "pk")), "\x00", "")
					if f.Pkg == "" {
						f.Pkg = "main"
					}
				}
				if oneIn(t, 3, "evilName") {
					f.Name = rapid.SampledFrom([]string{"<b>x", `"onmouseover="x`, "F<script>", "(*T<i>).M", "a&b"}).Draw(t, "nm")
				}
				if oneIn(t, 2, "evilFile") {
					f.File = "/" + strings.NewReplacer("\n", "", "\r", "", "\x00", "").Replace(rapid.SampledFrom(append(evilPaths, evilPayloads...)).Draw(t, "fl")) + "/x.go"
				}
			}
		}
		return c17ParsedCase{D: d, Level: rapid.IntRange(0, 3).Draw(t, "level"), Agg: rapid.Bool().Draw(t, "agg")}
	},
	Oracle: c17ParsedOracle,
	Obs: func(c c17ParsedCase) Obs {
		return Obs{Nontrivial: true, Digest: digestBytes(c.D.Print(), []byte{byte(c.Level), b2b(c.Agg)}), Classes: []string{"parsed_dump"}, Sample: quoteShort(truncBytes(c.D.Print(), 700))}
	},
}

func init() {
	register(c17Direct.key(), c17Direct.Oracle)
	register(c17Parsed.key(), c17Parsed.Oracle)
}

func TestC17(t *testing.T) {
	a := c17Direct
	a.Checks = n(700, 20000)
	a.Run(t)
	b := c17Parsed
	b.Checks = n(400, 10000)
	b.Run(t)
}
