package props

import (
	"fmt"
	"reflect"
	"testing"

	"github.com/maruel/panicparse/v2/stack"
	"pgregory.net/rapid"
)

// C12 — a bucket's signature truthfully generalises its members.

// flatScalars lists the scalar arguments of a stack in traversal order, with a shape string.
func flatScalars(s *stack.Stack) ([]*stack.Arg, string) {
	var out []*stack.Arg
	shape := ""
	var walk func(a *stack.Args)
	walk = func(a *stack.Args) {
		shape += fmt.Sprintf("(%d", len(a.Values))
		for i := range a.Values {
			v := &a.Values[i]
			if v.IsAggregate {
				shape += "{"
				walk(&v.Fields)
				shape += "}"
			} else {
				shape += "s"
				out = append(out, v)
			}
		}
		if a.Elided {
			shape += "..."
		}
		shape += ")"
	}
	for i := range s.Calls {
		shape += "|"
		walk(&s.Calls[i].Args)
	}
	return out, shape
}

// c12Check verifies every bucket of one aggregation against its members. It reports whether a
// bucket had >=3 members with the first difference introduced by the third or a later member,
// or a difference inside a nested aggregate.
func c12Check(s *stack.Snapshot, level stack.Similarity) (late bool, err error) {
	byID := map[int]*stack.Goroutine{}
	for _, g := range s.Goroutines {
		byID[g.ID] = g
	}
	a := s.Aggregate(level)
	for bi, b := range a.Buckets {
		where := fmt.Sprintf("%s bucket %d (ids %v)", levelNames[level], bi, b.IDs)
		var members []*stack.Goroutine
		for _, id := range b.IDs {
			g := byID[id]
			if g == nil {
				return late, fmt.Errorf("%s: unknown goroutine %d", where, id)
			}
			members = append(members, g)
		}
		if len(members) == 0 {
			return late, fmt.Errorf("%s: empty", where)
		}
		minS, maxS, locked := members[0].SleepMin, members[0].SleepMax, false
		bArgs, bShape := flatScalars(&b.Stack)
		for _, m := range members {
			if m.State != b.State {
				return late, fmt.Errorf("%s: state %q shown, member %d has %q", where, b.State, m.ID, m.State)
			}
			if !reflect.DeepEqual(m.CreatedBy, b.CreatedBy) {
				return late, fmt.Errorf("%s: creator shown differs from member %d's", where, m.ID)
			}
			if len(m.Stack.Calls) != len(b.Stack.Calls) || m.Stack.Elided != b.Stack.Elided {
				return late, fmt.Errorf("%s: stack length/elision shown differs from member %d's", where, m.ID)
			}
			for ci := range m.Stack.Calls {
				mc, bc := &m.Stack.Calls[ci], &b.Stack.Calls[ci]
				if mc.Func != bc.Func || mc.RemoteSrcPath != bc.RemoteSrcPath || mc.Line != bc.Line || mc.SrcName != bc.SrcName || mc.DirSrc != bc.DirSrc ||
					mc.LocalSrcPath != bc.LocalSrcPath || mc.RelSrcPath != bc.RelSrcPath || mc.ImportPath != bc.ImportPath || mc.Location != bc.Location {
					return late, fmt.Errorf("%s: frame %d shown differs from member %d's (%s %s:%d vs %s %s:%d)", where, ci, m.ID, bc.Func.Complete, bc.RemoteSrcPath, bc.Line, mc.Func.Complete, mc.RemoteSrcPath, mc.Line)
				}
			}
			_, mShape := flatScalars(&m.Stack)
			if mShape != bShape {
				return late, fmt.Errorf("%s: argument shape shown %s, member %d has %s", where, bShape, m.ID, mShape)
			}
			if m.SleepMin < minS {
				minS = m.SleepMin
			}
			if m.SleepMax > maxS {
				maxS = m.SleepMax
			}
			locked = locked || m.Locked
		}
		if b.SleepMin != minS || b.SleepMax != maxS {
			return late, fmt.Errorf("%s: sleep range shown %d~%d, members span %d~%d", where, b.SleepMin, b.SleepMax, minS, maxS)
		}
		if b.Locked != locked {
			return late, fmt.Errorf("%s: locked shown %v, OR over members is %v", where, b.Locked, locked)
		}
		// What is presented: the text of a frame's arguments (Args.String(), which the console
		// and the HTML use) must not be one member's own text when members differ there.
		for ci := range b.Stack.Calls {
			shown := b.Stack.Calls[ci].Args.String()
			texts := map[string]bool{}
			for _, m := range members {
				texts[m.Stack.Calls[ci].Args.String()] = true
			}
			if len(texts) > 1 && texts[shown] {
				return late, fmt.Errorf("%s: frame %d presents the arguments %q, which are those of only some members (members show %d different texts)", where, ci, shown, len(texts))
			}
			if len(texts) == 1 && !texts[shown] && len(members) == 1 {
				return late, fmt.Errorf("%s: frame %d presents %q but its only member shows something else", where, ci, shown)
			}
		}
		// Per scalar argument position.
		mArgs := make([][]*stack.Arg, len(members))
		for i, m := range members {
			mArgs[i], _ = flatScalars(&m.Stack)
		}
		for p, ba := range bArgs {
			agree := true
			firstDiff := -1
			for i := 1; i < len(members); i++ {
				x, y := mArgs[0][p], mArgs[i][p]
				if x.Value != y.Value || x.IsPtr != y.IsPtr || x.IsOffsetTooLarge != y.IsOffsetTooLarge || x.Name != y.Name {
					agree = false
					if firstDiff < 0 {
						firstDiff = i
					}
				}
			}
			if agree {
				x := mArgs[0][p]
				if ba.Name != x.Name || ba.Value != x.Value || ba.IsPtr != x.IsPtr || ba.IsOffsetTooLarge != x.IsOffsetTooLarge {
					return late, fmt.Errorf("%s: argument %d is %s in every member but shown as %s", where, p, x.String(), ba.String())
				}
			} else {
				if ba.Name != "*" {
					return late, fmt.Errorf("%s: argument %d differs between members (member %d vs member %d) but is shown as %s, not as the wildcard", where, p, members[0].ID, members[firstDiff].ID, ba.String())
				}
				if firstDiff >= 2 {
					late = true
				}
			}
		}
	}
	return late, nil
}

type c12Case struct {
	D      DumpM
	Race   *RaceM `json:",omitempty"`
	Naming bool
}

func (c *c12Case) opts() *stack.Opts { return &stack.Opts{NameArguments: c.Naming} }

func (c *c12Case) snapshot() (*stack.Snapshot, error) {
	if c.Race != nil {
		s, err := scanAloneOpts(c.Race.Print(), c.opts())
		if s == nil {
			return nil, fmt.Errorf("generated race report does not parse: %v", err)
		}
		return s, nil
	}
	return parseDump(&c.D, c.opts())
}

func c12Oracle(c c12Case) error {
	s, err := c.snapshot()
	if err != nil {
		return err
	}
	for _, l := range allLevels {
		if _, err := c12Check(s, l); err != nil {
			return err
		}
	}
	return nil
}

var c12Rand = Check[c12Case]{
	Prop: "C12", Name: "random",
	Gen: func(t *rapid.T) c12Case {
		if oneIn(t, 8, "raceSnapshot") {
			r := genAggRace(t)
			return c12Case{Race: &r, Naming: rapid.Bool().Draw(t, "naming")}
		}
		return c12Case{D: genAggDump(t, 40), Naming: rapid.Bool().Draw(t, "naming")}
	},
	Oracle: c12Oracle,
	Obs: func(c c12Case) Obs {
		s, err := c.snapshot()
		late := false
		if err == nil {
			for _, l := range allLevels {
				if lt, _ := c12Check(s, l); lt {
					late = true
				}
			}
		}
		cl := []string{}
		if late {
			cl = append(cl, "difference_introduced_by_3rd_or_later_member")
		}
		if c.Naming {
			cl = append(cl, "naming_on")
		}
		in := c.D.Print()
		if c.Race != nil {
			cl = append(cl, "race_snapshot")
			in = c.Race.Print()
		}
		return Obs{Nontrivial: late, Digest: digestBytes(in, []byte{b2b(c.Naming)}), Classes: cl, Sample: quoteShort(truncBytes(in, 900))}
	},
}

func b2b(b bool) byte {
	if b {
		return 1
	}
	return 0
}

// ---- exhaustive: members differing in one argument position, every arrival order ---------

// c12Universe: a base frame with a top-level pointer, a top-level scalar and nested
// aggregates three deep; variants change exactly one scalar position (or sleep / lock).
func c12Universe() []GM {
	base := func() GM {
		deep := &ArgListM{Items: []ArgM{{Val: 0xc000070000}, {Agg: &ArgListM{Items: []ArgM{{Val: 0xc000080000}, {Agg: &ArgListM{Items: []ArgM{{Val: 0xc000090000}, {Val: 4}}}}}}}}}
		return GM{State: "select", ElideAt: -1, Frames: []FrameM{
			{Pkg: "main", Name: "f", File: "/a/f.go", Line: 10, PCOff: 1, Args: ArgListM{Items: []ArgM{{Val: 0xc000010000}, {Val: 7}, {Agg: deep}}}},
		}, Creator: &CreatorM{Pkg: "main", Name: "spawn", File: "/a/s.go", Line: 5, PCOff: 3}}
	}
	var u []GM
	add := func(f func(g *GM)) {
		g := base()
		g.Frames = cloneFrames(g.Frames)
		f(&g)
		u = append(u, g)
	}
	add(func(g *GM) {})
	add(func(g *GM) { g.Frames[0].Args.Items[0].Val = 0xc000020000 })
	add(func(g *GM) { g.Frames[0].Args.Items[0].Val = 0xc000030000 })
	add(func(g *GM) { g.Frames[0].Args.Items[1].Val = 8 })
	add(func(g *GM) { g.Frames[0].Args.Items[2].Agg.Items[0].Val = 0xc000071000 })
	add(func(g *GM) { g.Frames[0].Args.Items[2].Agg.Items[1].Agg.Items[0].Val = 0xc000081000 })
	add(func(g *GM) { g.Frames[0].Args.Items[2].Agg.Items[1].Agg.Items[1].Agg.Items[0].Val = 0xc000091000 })
	add(func(g *GM) { g.Frames[0].Args.Items[2].Agg.Items[1].Agg.Items[1].Agg.Items[1].Val = 5 })
	add(func(g *GM) { g.Minutes = 3 })
	add(func(g *GM) { g.Minutes = 11 })
	add(func(g *GM) { g.Locked = true })
	add(func(g *GM) { g.Frames[0].Args.Items[1] = ArgM{TooLarge: true} })
	// a literal zero next to the unprintable '_' (which is stored with the value 0)
	add(func(g *GM) { g.Frames[0].Args.Items[1].Val = 0 })
	// the same function and line in a file of the same name in another directory (two
	// versions of a module, two directory-less cgo files), in a frame and in the creator
	add(func(g *GM) { g.Frames[0].File = "/b/f.go" })
	add(func(g *GM) { g.Frames[0].File = "/a/v2/f.go" })
	add(func(g *GM) { c := *g.Creator; c.File = "/b/s.go"; g.Creator = &c })
	// the same stack and creator in another state (a nil channel next to a real one, a worker
	// just woken next to a parked one)
	add(func(g *GM) { g.State = "chan receive" })
	add(func(g *GM) { g.State = "chan receive (nil chan)" })
	// the garbage collector is scanning the goroutine's stack: the runtime appends " (scan)"
	add(func(g *GM) { g.State = "select (scan)" })
	// started by the same go statement from different parents (go >= 1.21 prints the parent)
	for _, parent := range []int{5, 7} {
		add(func(g *GM) { c := *g.Creator; c.Parent = parent; g.Creator = &c })
	}
	return u
}

type c12UniCase struct {
	Seq       []int
	Naming    bool
	Processed bool // members carry source-augmented argument text (Args.Processed)
}

// withProcessed gives every call the typed rendering a source analysis would produce.
func withProcessed(gs []*stack.Goroutine) []*stack.Goroutine {
	var out []*stack.Goroutine
	for _, g := range gs {
		g = cloneGoroutine(g)
		for ci := range g.Stack.Calls {
			a := &g.Stack.Calls[ci].Args
			for vi := range a.Values {
				a.Processed = append(a.Processed, "T("+a.Values[vi].String()+")")
			}
		}
		out = append(out, g)
	}
	return out
}

var c12Uni [2][]*stack.Goroutine

func c12Members(naming bool) []*stack.Goroutine {
	k := int(b2b(naming))
	if c12Uni[k] == nil {
		// Pseudo-names are snapshot-wide; the universe is parsed as one dump so that names
		// are consistent, then members are picked from it.
		u := c12Universe()
		for i := range u {
			u[i].ID = i + 1
		}
		d := DumpM{Gs: u, FileIndent: "\t"}
		s, err := parseDump(&d, &stack.Opts{NameArguments: naming})
		if err != nil {
			panic("HARNESS: " + err.Error())
		}
		c12Uni[k] = s.Goroutines
	}
	return c12Uni[k]
}

var c12UniCheck = Check[c12UniCase]{
	Prop: "C12", Name: "universe",
	Oracle: func(c c12UniCase) error {
		members := c12Members(c.Naming)
		if c.Processed {
			members = withProcessed(members)
		}
		s := assemble(members, c.Seq, nil, 0)
		for _, l := range allLevels {
			if _, err := c12Check(s, l); err != nil {
				return err
			}
		}
		return nil
	},
}

func init() {
	register(c12Rand.key(), c12Rand.Oracle)
	register(c12UniCheck.key(), c12UniCheck.Oracle)
}

func TestC12(t *testing.T) {
	st := statsFor("C12")
	u := c12Universe()
	var cnt, nt int64
	forEachTuple(len(u), 4, func(idx int, seq []int) {
		for v := 0; v < 3; v++ {
			naming, processed := v == 1, v == 2
			if !c12UniCheck.Each(t, c12UniCase{Seq: append([]int{}, seq...), Naming: naming, Processed: processed}) {
				return
			}
			cnt++
			if len(seq) >= 3 {
				nt++
			}
		}
	})
	st.count(cnt, nt)
	st.class("universe_sequences", cnt)
	st.exhaustive(fmt.Sprintf("all ordered sequences (every arrival order) of 1..4 members over %d variants differing in one argument position (top level, nesting depth 1..3), sleep, lock, too-large; naming off, naming on, and with source-augmented argument text; x 4 levels", len(u)), cnt)
	st.sample(map[string]any{"universe_sequence": []int{0, 0, 6, 9}, "naming": true})
	a := c12Rand
	a.Checks = n(2500, 60000)
	a.Run(t)
}
