package props

import (
	"bytes"
	"fmt"
	"sort"
	"testing"

	"github.com/maruel/panicparse/v2/stack"
	"pgregory.net/rapid"
)

// C04 — aggregation is a partition that conserves goroutines.

func c04Check(snap *stack.Snapshot, level stack.Similarity) (merged bool, err error) {
	a := snap.Aggregate(level)
	if a.Snapshot != snap {
		return false, fmt.Errorf("%s: Aggregated.Snapshot is not the snapshot it was made from", levelNames[level])
	}
	want := map[int]int{}
	firstID, hasFirst := 0, false
	for _, g := range snap.Goroutines {
		want[g.ID]++
		if g.First {
			firstID, hasFirst = g.ID, true
		}
	}
	got := map[int]int{}
	total := 0
	firstBuckets := 0
	for bi, b := range a.Buckets {
		if len(b.IDs) == 0 {
			return false, fmt.Errorf("%s: bucket %d is empty", levelNames[level], bi)
		}
		if !sort.IntsAreSorted(b.IDs) {
			return false, fmt.Errorf("%s: bucket %d ids not ascending: %v", levelNames[level], bi, b.IDs)
		}
		holdsFirst := false
		for k, id := range b.IDs {
			if k > 0 && b.IDs[k-1] == id && want[id] < 2 {
				return false, fmt.Errorf("%s: bucket %d lists goroutine %d twice", levelNames[level], bi, id)
			}
			got[id]++
			total++
			if hasFirst && id == firstID {
				holdsFirst = true
			}
		}
		if b.First != holdsFirst && !(holdsFirst && !b.First && want[firstID] > 1) {
			// (when the first goroutine's id occurs twice, only the bucket of the occurrence that
			// is flagged holds "the" first goroutine; that exactly one bucket is flagged is
			// checked below)
			return false, fmt.Errorf("%s: bucket %d (ids %v) First=%v but it %s the first goroutine (%d)", levelNames[level], bi, b.IDs, b.First,
				map[bool]string{true: "holds", false: "does not hold"}[holdsFirst], firstID)
		}
		if b.First {
			firstBuckets++
		}
		if len(b.IDs) >= 2 {
			merged = true
		}
	}
	if total != len(snap.Goroutines) {
		return merged, fmt.Errorf("%s: bucket counts add up to %d, snapshot has %d goroutines", levelNames[level], total, len(snap.Goroutines))
	}
	for id, n := range want {
		if got[id] != n {
			return merged, fmt.Errorf("%s: goroutine %d appears %d times in the buckets, %d in the snapshot", levelNames[level], id, got[id], n)
		}
	}
	for id := range got {
		if want[id] == 0 {
			return merged, fmt.Errorf("%s: bucket lists goroutine %d which is not in the snapshot", levelNames[level], id)
		}
	}
	if hasFirst && firstBuckets != 1 || !hasFirst && firstBuckets != 0 {
		return merged, fmt.Errorf("%s: %d buckets flagged First", levelNames[level], firstBuckets)
	}
	return merged, nil
}

type c04Case struct {
	D     DumpM
	Race  *RaceM `json:",omitempty"` // a race report instead of a goroutine dump
	First int    // index of the goroutine flagged First; -1: none (constructed snapshots only); -2: as parsed
	// CutAfterHeader: the dump ends right after the header line of its last goroutine (a
	// crash log cut short); the parser keeps that goroutine, which then has no frame at all.
	CutAfterHeader bool `json:",omitempty"`
}

func (c *c04Case) snapshot() (*stack.Snapshot, error) {
	var s *stack.Snapshot
	var err error
	if c.Race != nil {
		s, err = scanAloneOpts(c.Race.Print(), plainOpts())
		if s == nil {
			return nil, fmt.Errorf("generated race report does not parse: %v", err)
		}
		err = nil
	} else if c.CutAfterHeader && len(c.D.Gs) >= 2 {
		x := c.D.Print()
		sp := c.D.Spans()
		at := sp[len(sp)-1][0]
		x = x[:at+bytes.IndexByte(x[at:], '\n')+1]
		s, _ = scanAloneOpts(x, plainOpts())
		if s == nil || len(s.Goroutines) != len(c.D.Gs) {
			return nil, fmt.Errorf("a dump cut right after its last goroutine header does not give %d goroutines: %q", len(c.D.Gs), quoteShort(truncBytes(x, 600)))
		}
	} else {
		s, err = parseDump(&c.D, plainOpts())
	}
	if err != nil {
		return nil, err
	}
	if c.First != -2 {
		for i, g := range s.Goroutines {
			g.First = i == c.First
		}
	}
	return s, nil
}

func c04Oracle(c c04Case) error {
	s, err := c.snapshot()
	if err != nil {
		return err
	}
	for _, l := range allLevels {
		if _, err := c04Check(s, l); err != nil {
			return err
		}
	}
	// The same holds for snapshots constructed directly from this one: the same *Snapshot with
	// some goroutines filtered out (a caller hiding runtime goroutines, say) and aggregated
	// again, the full list put back, a shallow copy with another list, and no goroutine at all.
	all := s.Goroutines
	for parity := 0; parity < 2 && len(all) >= 2; parity++ {
		var keep []*stack.Goroutine
		for i, g := range all {
			if i%2 == parity {
				keep = append(keep, g)
			}
		}
		s.Goroutines = keep
		for _, l := range allLevels {
			if _, err := c04Check(s, l); err != nil {
				return fmt.Errorf("after aggregating, the snapshot's goroutine list was reduced to %d of %d and aggregated again: %v", len(keep), len(all), err)
			}
		}
		cp := *s
		cp.Goroutines = all
		for _, l := range allLevels {
			if _, err := c04Check(&cp, l); err != nil {
				return fmt.Errorf("shallow copy of an aggregated snapshot with the full goroutine list: %v", err)
			}
		}
	}
	s.Goroutines = all
	for _, l := range allLevels {
		if _, err := c04Check(s, l); err != nil {
			return fmt.Errorf("goroutine list restored and aggregated again: %v", err)
		}
	}
	empty := *s
	empty.Goroutines = nil
	for _, l := range allLevels {
		if _, err := c04Check(&empty, l); err != nil {
			return fmt.Errorf("snapshot without goroutines: %v", err)
		}
	}
	return nil
}

func mixedBucket(s *stack.Snapshot) bool {
	// a bucket with >=2 members that are not all exactly equal at the finest level
	for _, l := range []stack.Similarity{stack.AnyPointer, stack.AnyValue, stack.ExactLines} {
		a := s.Aggregate(l)
		byID := map[int]*stack.Goroutine{}
		for _, g := range s.Goroutines {
			byID[g.ID] = g
		}
		for _, b := range a.Buckets {
			if len(b.IDs) < 2 {
				continue
			}
			k0 := refKey(byID[b.IDs[0]], stack.ExactFlags) + fmt.Sprint(byID[b.IDs[0]].SleepMin)
			for _, id := range b.IDs[1:] {
				if refKey(byID[id], stack.ExactFlags)+fmt.Sprint(byID[id].SleepMin) != k0 {
					return true
				}
			}
		}
	}
	return false
}

var c04Rand = Check[c04Case]{
	Prop: "C04", Name: "random",
	Gen: func(t *rapid.T) c04Case {
		maxG := 60
		if thorough() && oneIn(t, 40, "huge") {
			maxG = 3000
		}
		if oneIn(t, 8, "raceSnapshot") {
			r := genAggRace(t)
			return c04Case{Race: &r, First: -2}
		}
		c := c04Case{D: genAggDump(t, maxG), First: -2}
		if oneIn(t, 3, "moveFirst") {
			c.First = rapid.IntRange(-1, len(c.D.Gs)-1).Draw(t, "firstAt")
		}
		c.CutAfterHeader = oneIn(t, 6, "cutAfterHeader")
		if len(c.D.Gs) >= 2 && oneIn(t, 6, "duplicateID") {
			// two processes writing to one stream, a dump pasted twice: ids repeat, and every
			// occurrence counts
			k := rapid.IntRange(1, len(c.D.Gs)-1).Draw(t, "dupAt")
			j := rapid.IntRange(0, k-1).Draw(t, "dupOf")
			c.D.Gs[k].ID = c.D.Gs[j].ID
			if rapid.Bool().Draw(t, "dupSameStack") {
				c.D.Gs[k].Frames = cloneFrames(c.D.Gs[j].Frames)
				c.D.Gs[k].State, c.D.Gs[k].Creator, c.D.Gs[k].Locked = c.D.Gs[j].State, c.D.Gs[j].Creator, c.D.Gs[j].Locked
				c.D.Gs[k].ElideAt, c.D.Gs[k].ElideN, c.D.Gs[k].ElideOld, c.D.Gs[k].Unavail = c.D.Gs[j].ElideAt, c.D.Gs[j].ElideN, c.D.Gs[j].ElideOld, c.D.Gs[j].Unavail
			}
		}
		return c
	},
	Oracle: c04Oracle,
	Obs: func(c c04Case) Obs {
		s, err := c.snapshot()
		nt := false
		if err == nil && len(s.Goroutines) >= 3 {
			nt = mixedBucket(s)
		}
		cl := []string{}
		if len(c.D.Gs) > 100 {
			cl = append(cl, "gt100_goroutines")
		}
		if nt {
			cl = append(cl, "merge_of_unequal_members")
		}
		if c.CutAfterHeader && len(c.D.Gs) >= 2 {
			cl = append(cl, "frameless_last_goroutine")
		}
		in := c.D.Print()
		if c.Race != nil {
			cl = append(cl, "race_snapshot")
			in = c.Race.Print()
		}
		return Obs{Nontrivial: nt, Digest: digestBytes(in, []byte{byte(c.First), b2b(c.CutAfterHeader)}), Classes: cl, Sample: quoteShort(truncBytes(in, 900))}
	},
}

type c04SeqCase struct {
	Seq   []int // indexes into universe16
	First int
}

var c04Uni []*stack.Goroutine

func c04Universe() []*stack.Goroutine {
	if c04Uni == nil {
		u, err := parsedUniverse(universe16(), plainOpts())
		if err != nil {
			panic("HARNESS: " + err.Error())
		}
		c04Uni = u
	}
	return c04Uni
}

var c04Seq = Check[c04SeqCase]{
	Prop: "C04", Name: "universe",
	Oracle: func(c c04SeqCase) error {
		s := assemble(c04Universe(), c.Seq, nil, c.First)
		for _, l := range allLevels {
			if _, err := c04Check(s, l); err != nil {
				return err
			}
		}
		return nil
	},
}

func init() {
	register(c04Rand.key(), c04Rand.Oracle)
	register(c04Seq.key(), c04Seq.Oracle)
}

// forEachTuple enumerates all sequences over [0,k) of length 1..maxLen (sharded).
func forEachTuple(k, maxLen int, f func(idx int, seq []int)) int {
	total := 0
	for l := 1; l <= maxLen; l++ {
		cnt := 1
		for i := 0; i < l; i++ {
			cnt *= k
		}
		seq := make([]int, l)
		for i := 0; i < cnt; i++ {
			if shardOwns(total + i) {
				v := i
				for j := l - 1; j >= 0; j-- {
					seq[j] = v % k
					v /= k
				}
				f(total+i, seq)
			}
		}
		total += cnt
	}
	return total
}

func TestC04(t *testing.T) {
	st := statsFor("C04")
	var cnt, nt int64
	forEachTuple(16, 4, func(idx int, seq []int) {
		first := idx%(len(seq)+1) - 1
		if !c04Seq.Each(t, c04SeqCase{Seq: append([]int{}, seq...), First: first}) {
			return
		}
		cnt++
		if len(seq) >= 3 {
			nt++
		}
	})
	st.count(cnt, nt)
	st.class("universe_sequences", cnt)
	st.exhaustive("all ordered sequences of 1..4 goroutines over a universe of 16 signature variants x 4 levels (First position varied)", cnt)
	st.sample(map[string]any{"universe_sequence": []int{0, 8, 1, 13}, "first": 2})
	a := c04Rand
	a.Checks = n(2500, 60000)
	a.Run(t)
}
