// Package props holds the generators, reference models and oracles that decide the
// properties listed in /verif/properties.jsonl for maruel/panicparse.
//
// Every check has the same shape: a generator producing a JSON-serialisable case, an oracle
// that is a pure function of the case and the code under test, and a Stats collector that
// records what was actually explored. A failing case is written to the replay file named by
// VERIF_REPLAY_OUT so it can be re-run without the property library (TestReplay).
package props

import (
	"encoding/binary"
	"encoding/json"
	"flag"
	"fmt"
	"hash/fnv"
	"os"
	"path/filepath"
	"runtime/debug"
	"sort"
	"strconv"
	"strings"
	"sync"
	"testing"
	"time"

	"pgregory.net/rapid"
)

// ---------------------------------------------------------------------------------------
// Run configuration (environment supplied by /verif/run).

type config struct {
	Tier    string // quick | thorough
	Seed    uint64
	Shard   int
	NShards int
	StatDir string // where per-shard statistics are written
	Replay  string // file to write a failing case to
	Known   string // path of known_findings.json
}

var cfg = loadConfig()

func envInt(name string, def int) int {
	if v := os.Getenv(name); v != "" {
		if n, err := strconv.Atoi(v); err == nil {
			return n
		}
	}
	return def
}

func loadConfig() config {
	c := config{
		Tier:    os.Getenv("VERIF_TIER"),
		Seed:    uint64(envInt("VERIF_SEED", 1)),
		Shard:   envInt("VERIF_SHARD", 0),
		NShards: envInt("VERIF_NSHARDS", 1),
		StatDir: os.Getenv("VERIF_STATS_DIR"),
		Replay:  os.Getenv("VERIF_REPLAY_OUT"),
		Known:   os.Getenv("VERIF_KNOWN"),
	}
	if c.Tier == "" {
		c.Tier = "quick"
	}
	if c.NShards < 1 {
		c.NShards = 1
	}
	if c.Known == "" {
		c.Known = "/verif/known_findings.json"
	}
	return c
}

func thorough() bool { return cfg.Tier == "thorough" }

// n picks a case count by tier. The thorough number is per shard.
func n(quick, thoroughN int) int {
	if thorough() {
		return thoroughN
	}
	return quick
}

// rapidSeed derives the seed rapid is run with from VERIF_SEED, the check name and the shard.
// rapid treats 0 as "pick a random seed", so 0 is remapped.
func rapidSeed(name string) uint64 {
	h := fnv.New64a()
	fmt.Fprintf(h, "%d|%s|%d", cfg.Seed, name, cfg.Shard)
	s := h.Sum64() >> 1 // rapid takes the value through an int flag
	if s == 0 {
		s = 1
	}
	return s
}

// ---------------------------------------------------------------------------------------
// Statistics: what a run actually covered.

// Stats accumulates the coverage of one property in one process.
type Stats struct {
	mu            sync.Mutex
	ID            string
	Evaluations   int64
	NontrivialSet map[uint64]struct{} // digests of distinct non-trivial cases
	NontrivialAdd int64               // non-trivial cases distinct by construction (enumerations)
	Classes       map[string]int64
	Samples       []any
	ExcludedKnown int64
	Exhaustive    map[string]int64 // name of a completely enumerated sub-space -> its size
	Notes         []string
	failed        bool
}

var (
	allStatsMu sync.Mutex
	allStats   = map[string]*Stats{}
)

func statsFor(id string) *Stats {
	allStatsMu.Lock()
	defer allStatsMu.Unlock()
	s := allStats[id]
	if s == nil {
		s = &Stats{ID: id, NontrivialSet: map[uint64]struct{}{}, Classes: map[string]int64{}, Exhaustive: map[string]int64{}}
		allStats[id] = s
	}
	return s
}

// Obs is what one case contributes to the statistics.
type Obs struct {
	Nontrivial bool
	Digest     uint64   // identity of the case for distinct counting (0 = derive from Sample JSON)
	Classes    []string // generator distribution labels
	Sample     any      // a printable rendering of the case
}

const maxSamples = 6

func (s *Stats) observe(o Obs) {
	s.mu.Lock()
	defer s.mu.Unlock()
	if s.failed {
		return // shrinking in progress: do not count the shrinker's executions
	}
	s.Evaluations++
	for _, c := range o.Classes {
		s.Classes[c]++
	}
	if o.Nontrivial {
		d := o.Digest
		if d == 0 {
			d = digestOf(o.Sample)
		}
		s.NontrivialSet[d] = struct{}{}
	}
	if o.Sample != nil && (o.Nontrivial || len(s.Samples) < 2) && len(s.Samples) < maxSamples {
		// Keep the first couple of cases whatever they are, then only non-trivial ones,
		// spaced out so that the list is not just the first few draws.
		if len(s.Samples) < 2 || s.Evaluations%97 == 0 {
			s.Samples = append(s.Samples, truncateSample(o.Sample))
		}
	}
}

// count adds n evaluations of an enumeration whose cases are distinct by construction; nt of
// them non-trivial.
func (s *Stats) count(n, nt int64) {
	s.mu.Lock()
	defer s.mu.Unlock()
	if s.failed {
		return
	}
	s.Evaluations += n
	s.NontrivialAdd += nt
}

func (s *Stats) class(name string, n int64) {
	s.mu.Lock()
	s.Classes[name] += n
	s.mu.Unlock()
}

func (s *Stats) sample(v any) {
	s.mu.Lock()
	if len(s.Samples) < maxSamples+4 {
		s.Samples = append(s.Samples, truncateSample(v))
	}
	s.mu.Unlock()
}

func (s *Stats) exhaustive(name string, size int64) {
	s.mu.Lock()
	s.Exhaustive[name] += size
	s.mu.Unlock()
}

func (s *Stats) excluded(n int64) {
	s.mu.Lock()
	s.ExcludedKnown += n
	s.mu.Unlock()
}

func (s *Stats) note(format string, a ...any) {
	s.mu.Lock()
	s.Notes = append(s.Notes, fmt.Sprintf(format, a...))
	s.mu.Unlock()
}

func (s *Stats) markFailed() {
	s.mu.Lock()
	s.failed = true
	s.mu.Unlock()
}

func digestOf(v any) uint64 {
	h := fnv.New64a()
	switch x := v.(type) {
	case []byte:
		h.Write(x)
	case string:
		h.Write([]byte(x))
	default:
		b, _ := json.Marshal(v)
		h.Write(b)
	}
	d := h.Sum64()
	if d == 0 {
		d = 1
	}
	return d
}

func digestBytes(parts ...[]byte) uint64 {
	h := fnv.New64a()
	var l [8]byte
	for _, p := range parts {
		binary.LittleEndian.PutUint64(l[:], uint64(len(p)))
		h.Write(l[:])
		h.Write(p)
	}
	d := h.Sum64()
	if d == 0 {
		d = 1
	}
	return d
}

func truncateSample(v any) any {
	const max = 1500
	switch x := v.(type) {
	case string:
		if len(x) > max {
			return x[:max] + fmt.Sprintf("…(+%d bytes)", len(x)-max)
		}
		return x
	case []byte:
		return truncateSample(fmt.Sprintf("%q", x))
	}
	b, err := json.Marshal(v)
	if err != nil {
		return fmt.Sprintf("%+v", v)
	}
	if len(b) > max {
		return string(b[:max]) + fmt.Sprintf("…(+%d bytes)", len(b)-max)
	}
	return json.RawMessage(b)
}

type statsFile struct {
	ID            string           `json:"id"`
	Shard         int              `json:"shard"`
	Evaluations   int64            `json:"evaluations"`
	NontrivialAdd int64            `json:"nontrivial_add"`
	Digests       []uint64         `json:"digests"`
	Classes       map[string]int64 `json:"classes"`
	Samples       []any            `json:"samples"`
	ExcludedKnown int64            `json:"excluded_known"`
	Exhaustive    map[string]int64 `json:"exhaustive"`
	Notes         []string         `json:"notes"`
	Failed        bool             `json:"failed"`
}

func writeAllStats() {
	if cfg.StatDir == "" {
		return
	}
	allStatsMu.Lock()
	defer allStatsMu.Unlock()
	for id, s := range allStats {
		s.mu.Lock()
		f := statsFile{ID: id, Shard: cfg.Shard, Evaluations: s.Evaluations, NontrivialAdd: s.NontrivialAdd,
			Classes: s.Classes, Samples: s.Samples, ExcludedKnown: s.ExcludedKnown, Exhaustive: s.Exhaustive,
			Notes: s.Notes, Failed: s.failed}
		f.Digests = make([]uint64, 0, len(s.NontrivialSet))
		for d := range s.NontrivialSet {
			f.Digests = append(f.Digests, d)
		}
		sort.Slice(f.Digests, func(i, j int) bool { return f.Digests[i] < f.Digests[j] })
		s.mu.Unlock()
		b, err := json.Marshal(f)
		if err != nil {
			fmt.Fprintf(os.Stderr, "stats marshal %s: %v\n", id, err)
			continue
		}
		_ = os.MkdirAll(cfg.StatDir, 0o755)
		_ = os.WriteFile(filepath.Join(cfg.StatDir, fmt.Sprintf("%s.%d.json", id, cfg.Shard)), b, 0o644)
	}
}

// ---------------------------------------------------------------------------------------
// Replay files.

type replayFile struct {
	Property string          `json:"property"`
	Check    string          `json:"check"` // sub-check name, key into the replay registry
	Error    string          `json:"error"`
	Seed     uint64          `json:"seed"`
	Tier     string          `json:"tier"`
	Case     json.RawMessage `json:"case"`
}

var (
	replayMu  sync.Mutex
	replayers = map[string]func(raw json.RawMessage) error{}
)

// register makes a sub-check replayable: name is "C07/seq" etc.
func register[C any](name string, oracle func(C) error) {
	replayers[name] = func(raw json.RawMessage) error {
		var c C
		if err := json.Unmarshal(raw, &c); err != nil {
			return fmt.Errorf("replay: cannot decode case: %w", err)
		}
		return guard(func() error { return oracle(c) })
	}
}

func saveReplay(prop, check string, c any, err error) string {
	replayMu.Lock()
	defer replayMu.Unlock()
	if cfg.Replay == "" {
		return ""
	}
	raw, jerr := json.Marshal(c)
	if jerr != nil {
		raw, _ = json.Marshal(fmt.Sprintf("%+v", c))
	}
	b, _ := json.MarshalIndent(replayFile{Property: prop, Check: check, Error: err.Error(), Seed: cfg.Seed, Tier: cfg.Tier, Case: raw}, "", " ")
	_ = os.MkdirAll(filepath.Dir(cfg.Replay), 0o755)
	_ = os.WriteFile(cfg.Replay, b, 0o644)
	return cfg.Replay
}

// guard runs f and converts a panic (of the code under test or of the oracle) into an error.
func guard(f func() error) (err error) {
	defer func() {
		if r := recover(); r != nil {
			err = fmt.Errorf("PANIC: %v\n%s", r, trimStack(debug.Stack()))
		}
	}()
	return f()
}

func trimStack(b []byte) []byte {
	if len(b) > 3000 {
		return b[:3000]
	}
	return b
}

// ---------------------------------------------------------------------------------------
// Running a property.

// Check describes one generated check.
type Check[C any] struct {
	Prop   string // C01..C20
	Name   string // sub-check, unique within Prop
	Gen    func(t *rapid.T) C
	Oracle func(c C) error // nil: the property held on c
	Obs    func(c C) Obs   // classification for the evidence
	Checks int             // number of generated cases in this process
}

func (c Check[C]) key() string { return c.Prop + "/" + c.Name }

// Run drives the check with rapid; a failure is shrunk by rapid and the minimal case (the
// last failing execution) is what remains in the replay file.
func (c Check[C]) Run(t *testing.T) {
	t.Helper()
	st := statsFor(c.Prop)
	if c.Checks <= 0 {
		return
	}
	_ = flag.Set("rapid.checks", strconv.Itoa(c.Checks))
	_ = flag.Set("rapid.seed", strconv.FormatUint(rapidSeed(c.key()), 10))
	_ = flag.Set("rapid.nofailfile", "true")
	t0 := time.Now()
	defer func() {
		fmt.Printf("phase %s: %d checks requested, %.1fs\n", c.key(), c.Checks, time.Since(t0).Seconds())
	}()
	ncase := 0
	rapid.Check(t, func(rt *rapid.T) {
		cs := c.Gen(rt)
		// The library keeps no state between calls; a few unrelated calls of awkward kinds
		// before every third case make sure no check depends on that being true by luck.
		if ncase++; ncase%3 == 0 && polluter != nil {
			polluter(ncase)
		}
		err := guard(func() error { return c.Oracle(cs) })
		if c.Obs != nil {
			// classifying a case may run library code too (is there a merge? a tie?): a panic
			// there is the library's, and must not hide a verdict the oracle already reached
			if oerr := guard(func() error { st.observe(c.Obs(cs)); return nil }); oerr != nil && err == nil {
				err = fmt.Errorf("while classifying the case: %v", oerr)
			}
		} else {
			st.observe(Obs{Nontrivial: true, Sample: cs})
		}
		if err != nil {
			inconclusiveIfHarness(c.key(), err)
			st.markFailed()
			p := saveReplay(c.Prop, c.key(), cs, err)
			rt.Fatalf("property %s violated (%s): %v\nreplay=%s", c.Prop, c.key(), err, p)
		}
	})
}

// inconclusiveIfHarness: an error of the machinery itself (a scratch file that cannot be
// written, a generated program that does not build, a time limit hit on a machine that is too
// busy) says nothing about the property. It ends the process with status 3 and without a
// replay file, which the driver reports as INCONCLUSIVE (exit 2), never as a violation.
func inconclusiveIfHarness(key string, err error) {
	if err == nil || !strings.Contains(err.Error(), "HARNESS:") {
		return
	}
	fmt.Printf("HARNESS-ERROR in %s (inconclusive, not a violation): %v\n", key, err)
	writeAllStats()
	os.Exit(3)
}

// polluter, when set (pollute_test.go), performs unrelated library calls between cases.
var polluter func(n int)

// Each runs the oracle on one explicitly enumerated case.
func (c Check[C]) Each(t *testing.T, cs C) bool {
	err := guard(func() error { return c.Oracle(cs) })
	if err != nil {
		inconclusiveIfHarness(c.key(), err)
		st := statsFor(c.Prop)
		st.markFailed()
		p := saveReplay(c.Prop, c.key(), cs, err)
		t.Fatalf("property %s violated (%s): %v\nreplay=%s", c.Prop, c.key(), err, p)
		return false
	}
	return true
}

// shardOwns tells whether enumeration index i belongs to this process.
func shardOwns(i int) bool { return i%cfg.NShards == cfg.Shard }
