package props

import (
	"bytes"
	"fmt"
	"io"
	"math"
	"os"
	"os/exec"
	"path/filepath"
	"reflect"
	"regexp"
	"runtime"
	"strconv"
	"strings"
	"testing"

	"github.com/maruel/panicparse/v2/stack"
	"pgregory.net/rapid"
)

// C19 — source-based argument augmentation is truthful and harmless. Programs are generated,
// compiled with the installed toolchain, crashed, and their real traceback is fed back.

// GVar is a package-level variable of a pointer-like or multi-word kind.
type GVar struct {
	Type string // Go type
	Init string // initialiser expression
	Len  int
	Cap  int
}

// Param is one parameter and the argument passed for it.
type Param struct {
	Type string
	Bits uint64 // scalar kinds: the value as stored in a 64-bit word
	Var  int    // index into Vars for pointer-like / multi-word kinds, else -1
}

type Fn struct {
	Recv  bool // pointer-receiver method (the receiver comes from a package-level variable)
	RecvU bool `json:",omitempty"` // the receiver type is U instead of T
	// RecvForm: how the receiver is declared: 0 "(t *T)", 1 unnamed "(*T)", 2 blank "(_ *T)"
	RecvForm int    `json:",omitempty"`
	Name     string `json:",omitempty"` // method name; the same name exists on both receiver types
	Defer    bool   `json:",omitempty"` // calls the next function of the chain in a deferred call (its frame is then reported at its closing brace)
	InB      bool   `json:",omitempty"` // declared in b.go instead of main.go: a traceback walks through both files in any pattern
	Params   []Param
}

type Chain struct{ Funcs []Fn }

type c19Prog struct {
	Vars   []GVar
	Chains []Chain
	Mutate int // 0 none; otherwise which source mismatch to apply after the build
	// Second: another revision of the program, written into the same directory, built and
	// crashed after the first one was analysed (same file names, different contents).
	Second *c19Prog `json:",omitempty"`
	// CRLF: the sources have Windows line endings (the compiler does not care).
	CRLF bool `json:",omitempty"`
}

var scalarTypes = []string{"bool", "int", "int8", "int16", "int32", "int64", "uint", "uint8", "uint16", "uint32", "uint64", "float32", "float64"}
var varTypes = []string{"string", "[]int", "[]string", "[]byte", "*T", "*int", "map[string]int", "map[int]string", "chan int", "chan string", "<-chan int", "chan<- string", "func()", "func(int) string"}

func words(t string) int {
	switch {
	case t == "string":
		return 2
	case strings.HasPrefix(t, "[]"):
		return 3
	}
	return 1
}

func sizeBits(t string) int {
	switch t {
	case "bool", "int8", "uint8":
		return 8
	case "int16", "uint16":
		return 16
	case "int32", "uint32", "float32":
		return 32
	}
	return 64
}

func genScalarBits(t *rapid.T, typ string) uint64 {
	sb := sizeBits(typ)
	mask := uint64(1)<<uint(sb) - 1
	if sb == 64 {
		mask = ^uint64(0)
	}
	switch typ {
	case "bool":
		return uint64(rapid.IntRange(0, 1).Draw(t, "bool"))
	case "float64":
		return rapid.SampledFrom([]uint64{0, math.Float64bits(1.5), math.Float64bits(-2.25), math.Float64bits(math.Inf(1)), math.Float64bits(math.Inf(-1)), math.Float64bits(math.NaN()),
			1 << 63, math.Float64bits(math.MaxFloat64), 1, math.Float64bits(1e-7), math.Float64bits(123456789.125), math.Float64bits(0.1)}).Draw(t, "f64")
	case "float32":
		return uint64(rapid.SampledFrom([]uint32{0, math.Float32bits(1.5), math.Float32bits(-2.25), math.Float32bits(float32(math.Inf(1))), 1 << 31, math.Float32bits(math.MaxFloat32), 1,
			math.Float32bits(0.1), math.Float32bits(16777217), math.Float32bits(float32(math.NaN()))}).Draw(t, "f32"))
	}
	switch rapid.IntRange(0, 5).Draw(t, "intClass") {
	case 0:
		return 0
	case 1:
		return 1
	case 2:
		return mask // -1 / max unsigned
	case 3:
		return uint64(1) << uint(sb-1) & mask // min signed / high bit
	case 4:
		return (uint64(1)<<uint(sb-1) - 1) & mask // max signed
	}
	return rapid.Uint64().Draw(t, "intBits") & mask
}

func genVar(t *rapid.T, typ string) GVar {
	v := GVar{Type: typ}
	switch typ {
	case "string":
		s := rapid.SampledFrom([]string{"", "a", "hello", "héllo wörld", strings.Repeat("x", 300)}).Draw(t, "str")
		v.Init, v.Len = strconv.Quote(s), len(s)
	case "[]int", "[]string", "[]byte":
		if oneIn(t, 5, "nilSlice") {
			v.Init = "nil"
		} else {
			v.Len = rapid.IntRange(0, 5).Draw(t, "slen")
			v.Cap = v.Len + rapid.IntRange(0, 4).Draw(t, "scap")
			v.Init = fmt.Sprintf("make(%s, %d, %d)", typ, v.Len, v.Cap)
		}
	case "*T":
		v.Init = rapid.SampledFrom([]string{"&T{a: 1}", "nil"}).Draw(t, "ptrT")
	case "*int":
		v.Init = rapid.SampledFrom([]string{"new(int)", "nil"}).Draw(t, "ptrInt")
	case "map[string]int", "map[int]string":
		v.Init = rapid.SampledFrom([]string{typ + "{}", "nil"}).Draw(t, "map")
	case "chan int", "chan string", "<-chan int", "chan<- string":
		el := typ[strings.LastIndexByte(typ, ' ')+1:]
		v.Init = rapid.SampledFrom([]string{"make(chan " + el + ")", "make(chan " + el + ", 2)", "nil"}).Draw(t, "chan")
	case "func()":
		v.Init = rapid.SampledFrom([]string{"func() {}", "nil"}).Draw(t, "func")
	case "func(int) string":
		v.Init = rapid.SampledFrom([]string{`func(int) string { return "" }`, "nil"}).Draw(t, "func")
	}
	return v
}

func genProg(t *rapid.T, nchains int) c19Prog {
	var p c19Prog
	p.Vars = append(p.Vars, GVar{Type: "*T", Init: "&T{a: 7}"}, GVar{Type: "*U", Init: "&U{b: 3}"}) // receivers
	nT, nU := 0, 0
	for c := 0; c < nchains; c++ {
		var ch Chain
		nf := rapid.IntRange(1, 3).Draw(t, "nfuncs")
		// values forwarded through several frames recur in the dump (pointer naming then sees
		// them at least twice)
		forwarded := map[string]uint64{}
		for f := 0; f < nf; f++ {
			fn := Fn{Recv: oneIn(t, 3, "method"), Defer: oneIn(t, 4, "defer"), InB: rapid.Bool().Draw(t, "inB")}
			if fn.Recv {
				// methods of the two receiver types share their names (run0, run1, ...)
				fn.RecvU = rapid.Bool().Draw(t, "recvU")
				fn.RecvForm = rapid.SampledFrom([]int{0, 0, 1, 2}).Draw(t, "recvForm")
				if fn.RecvU {
					fn.Name = fmt.Sprintf("run%d", nU)
					nU++
				} else {
					fn.Name = fmt.Sprintf("run%d", nT)
					nT++
				}
			}
			np := rapid.IntRange(0, 7).Draw(t, "nparams")
			if oneIn(t, 5, "manyParams") {
				np = rapid.IntRange(8, 11).Draw(t, "nparams") // beyond the ten words the runtime prints
			}
			for i := 0; i < np; i++ {
				if rapid.IntRange(0, 9).Draw(t, "kindClass") < 5 {
					typ := rapid.SampledFrom(scalarTypes).Draw(t, "scalarType")
					bits, seen := forwarded[typ]
					if !seen || !rapid.Bool().Draw(t, "forwardSame") {
						bits = genScalarBits(t, typ)
						forwarded[typ] = bits
					}
					fn.Params = append(fn.Params, Param{Type: typ, Bits: bits, Var: -1})
				} else {
					typ := rapid.SampledFrom(varTypes).Draw(t, "varType")
					p.Vars = append(p.Vars, genVar(t, typ))
					fn.Params = append(fn.Params, Param{Type: typ, Var: len(p.Vars) - 1})
				}
			}
			ch.Funcs = append(ch.Funcs, fn)
		}
		p.Chains = append(p.Chains, ch)
	}
	return p
}

func literal(p Param) string {
	switch p.Type {
	case "bool":
		return strconv.FormatBool(p.Bits != 0)
	case "float64":
		return fmt.Sprintf("math.Float64frombits(%#x)", p.Bits)
	case "float32":
		return fmt.Sprintf("math.Float32frombits(%#x)", uint32(p.Bits))
	case "int":
		return strconv.FormatInt(int64(p.Bits), 10)
	case "int8":
		return strconv.FormatInt(int64(int8(p.Bits)), 10)
	case "int16":
		return strconv.FormatInt(int64(int16(p.Bits)), 10)
	case "int32":
		return strconv.FormatInt(int64(int32(p.Bits)), 10)
	case "int64":
		return strconv.FormatInt(int64(p.Bits), 10)
	}
	return strconv.FormatUint(p.Bits, 10)
}

func fnName(c, f int) string { return fmt.Sprintf("c%df%d", c, f) }

func (p *c19Prog) name(c, f int) string {
	if fn := p.Chains[c].Funcs[f]; fn.Recv && fn.Name != "" {
		return fn.Name
	}
	return fnName(c, f)
}

func (fn *Fn) recvType() string {
	if fn.RecvU {
		return "U"
	}
	return "T"
}

// fileOf: each function lies in one of two source files, so that one traceback walks through
// both, in runs of any length.
func (p *c19Prog) fileOf(c, f int) string {
	if p.Chains[c].Funcs[f].InB {
		return "b.go"
	}
	return "main.go"
}

// sources renders the program as two files of package main.
func (p *c19Prog) sources() map[string]string {
	var b, b2 strings.Builder
	b.WriteString("package main\n\nimport (\n\t\"fmt\"\n\t\"math\"\n\t\"os\"\n\t\"unsafe\"\n)\n\nvar _ = math.Pi\nvar _ = unsafe.Pointer(nil)\n\ntype T struct{ a int }\n\ntype U struct{ b int }\n\n")
	b2.WriteString("package main\n\nimport \"math\"\n\nvar _ = math.Pi\n")
	for i, v := range p.Vars {
		fmt.Fprintf(&b, "var g%d %s = %s\n", i, v.Type, v.Init)
	}
	b.WriteString("\nfunc ptrs() {\n")
	for i, v := range p.Vars {
		switch {
		case v.Type == "string":
			fmt.Fprintf(&b, "\tfmt.Printf(\"PTR %d %%x\\n\", uintptr(unsafe.Pointer(unsafe.StringData(g%d))))\n", i, i)
		case strings.HasPrefix(v.Type, "[]"):
			fmt.Fprintf(&b, "\tfmt.Printf(\"PTR %d %%x\\n\", uintptr(unsafe.Pointer(unsafe.SliceData(g%d))))\n", i, i)
		default:
			fmt.Fprintf(&b, "\tfmt.Printf(\"PTR %d %%x\\n\", *(*uintptr)(unsafe.Pointer(&g%d)))\n", i, i)
		}
	}
	b.WriteString("}\n")
	for c, ch := range p.Chains {
		for f, fn := range ch.Funcs {
			w := &b
			if p.fileOf(c, f) == "b.go" {
				w = &b2
			}
			w.WriteString("\n//go:noinline\nfunc ")
			if fn.Recv {
				w.WriteString("(" + []string{"t ", "", "_ "}[fn.RecvForm%3] + "*" + fn.recvType() + ") ")
			}
			w.WriteString(p.name(c, f) + "(")
			for i, pr := range fn.Params {
				if i > 0 {
					w.WriteString(", ")
				}
				fmt.Fprintf(w, "p%d %s", i, pr.Type)
			}
			w.WriteString(") {\n")
			if f+1 < len(ch.Funcs) {
				if fn.Defer {
					w.WriteString("\tdefer " + p.call(c, f+1) + "\n")
				} else {
					w.WriteString("\t" + p.call(c, f+1) + "\n")
				}
			} else {
				w.WriteString("\tptrs()\n\tpanic(\"boom\")\n")
			}
			w.WriteString("}\n")
		}
	}
	b.WriteString("\nfunc main() {\n\tswitch os.Args[1] {\n")
	for c := range p.Chains {
		fmt.Fprintf(&b, "\tcase \"%d\":\n\t\t%s\n", c, p.call(c, 0))
	}
	b.WriteString("\t}\n}\n")
	if p.CRLF {
		return map[string]string{"main.go": strings.ReplaceAll(b.String(), "\n", "\r\n"), "b.go": strings.ReplaceAll(b2.String(), "\n", "\r\n")}
	}
	return map[string]string{"main.go": b.String(), "b.go": b2.String()}
}

// lastInFile: function f of chain c is the last declaration of its source file.  Only b.go
// can end with a generated function; main.go ends with main.
func lastInFile(p *c19Prog, c, f int) bool {
	if p.fileOf(c, f) != "b.go" {
		return false
	}
	lc, lf := -1, -1
	for ci, ch := range p.Chains {
		for fi := range ch.Funcs {
			if p.fileOf(ci, fi) == "b.go" {
				lc, lf = ci, fi
			}
		}
	}
	return lc == c && lf == f
}

func (p *c19Prog) source() string {
	m := p.sources()
	return "// main.go\n" + m["main.go"] + "\n// b.go\n" + m["b.go"]
}

func (p *c19Prog) call(c, f int) string {
	fn := p.Chains[c].Funcs[f]
	var args []string
	for _, pr := range fn.Params {
		if pr.Var >= 0 {
			args = append(args, fmt.Sprintf("g%d", pr.Var))
		} else {
			args = append(args, pr.Type+"("+literal(pr)+")")
		}
	}
	recv := ""
	if fn.Recv {
		recv = "g0."
		if fn.RecvU {
			recv = "g1."
		}
	}
	return recv + p.name(c, f) + "(" + strings.Join(args, ", ") + ")"
}

// rePartial picks the length and capacity fields out of a rendered string or slice.
var rePartial = regexp.MustCompile(`^[^(]*\([^ ,)]*,? ?len=([^ )]*)(?: cap=([^ )]*))?\)$`)
var reDecimal = regexp.MustCompile(`^[0-9]+$`)

var rePTR = regexp.MustCompile(`(?m)^PTR (\d+) ([0-9a-f]+)$`)

type crash struct {
	stderr []byte
	ptrs   map[int]uint64
	base   [2]*stack.Snapshot // scans against the matching sources, naming off / on
}

func goTool() string {
	if p := os.Getenv("VERIF_GO"); p != "" {
		return p
	}
	return "go"
}

// buildAndCrash compiles the program and runs every chain.
func buildAndCrash(p *c19Prog, dir string) ([]crash, error) {
	if err := os.WriteFile(filepath.Join(dir, "go.mod"), []byte("module example.com/crash\n\ngo 1.21\n"), 0o644); err != nil {
		return nil, fmt.Errorf("HARNESS: %v", err)
	}
	for name, src := range p.sources() {
		if err := os.WriteFile(filepath.Join(dir, name), []byte(src), 0o644); err != nil {
			return nil, fmt.Errorf("HARNESS: %v", err)
		}
	}
	cmd := exec.Command(goTool(), "build", "-gcflags", "-N -l", "-o", "prog", ".")
	cmd.Dir = dir
	cmd.Env = append(os.Environ(), "GOFLAGS=-mod=mod", "GOPROXY=off", "GOSUMDB=off", "GOTOOLCHAIN=local", "CGO_ENABLED=0")
	if out, err := cmd.CombinedOutput(); err != nil {
		return nil, fmt.Errorf("HARNESS: generated program does not build: %v\n%s\n%s", err, out, p.source())
	}
	var out []crash
	for c := range p.Chains {
		run := exec.Command(filepath.Join(dir, "prog"), strconv.Itoa(c))
		run.Env = append(os.Environ(), "GOTRACEBACK=all")
		var so, se bytes.Buffer
		run.Stdout, run.Stderr = &so, &se
		_ = run.Run()
		cr := crash{stderr: se.Bytes(), ptrs: map[int]uint64{}}
		for _, m := range rePTR.FindAllSubmatch(so.Bytes(), -1) {
			i, _ := strconv.Atoi(string(m[1]))
			v, _ := strconv.ParseUint(string(m[2]), 16, 64)
			cr.ptrs[i] = v
		}
		if !bytes.Contains(cr.stderr, []byte("panic: boom")) {
			return nil, fmt.Errorf("HARNESS: chain %d did not crash as planned: %q", c, quoteShort(cr.stderr))
		}
		out = append(out, cr)
	}
	return out, nil
}

func flatCount(a *stack.Args) int {
	n := 0
	for i := range a.Values {
		if a.Values[i].IsAggregate {
			n += flatCount(&a.Values[i].Fields)
		} else {
			n++
		}
	}
	return n
}

func hexPtr(v uint64) string { return fmt.Sprintf("0x%x", v) }

var rePseudo = regexp.MustCompile(`#\d+`)

// samePtrText: with naming on a pointer may be shown by its pseudo-name instead of its value.
func samePtrText(got, want string, naming bool) bool {
	if got == want {
		return true
	}
	if !naming {
		return false
	}
	// replace the hex pointer of the expectation by any pseudo-name
	i := strings.Index(want, "0x")
	if i < 0 {
		return false
	}
	j := i + 2
	for j < len(want) && isHex(want[j]) {
		j++
	}
	loc := rePseudo.FindStringIndex(got)
	return loc != nil && loc[0] == i && got[:i] == want[:i] && got[loc[1]:] == want[j:]
}

// expectProcessed returns the truthful rendering of a parameter, or a predicate for floats.
func checkParam(pr Param, vars []GVar, ptrs map[int]uint64, got string, naming bool) error {
	switch pr.Type {
	case "bool":
		if got != strconv.FormatBool(pr.Bits != 0) {
			return fmt.Errorf("bool %v rendered %q", pr.Bits != 0, got)
		}
	case "int", "int8", "int16", "int32", "int64":
		if got != literal(pr) {
			return fmt.Errorf("%s %s rendered %q", pr.Type, literal(pr), got)
		}
	case "uint", "uint8", "uint16", "uint32", "uint64":
		if got != strconv.FormatUint(pr.Bits, 10) {
			return fmt.Errorf("%s %d rendered %q", pr.Type, pr.Bits, got)
		}
	case "float64", "float32":
		// The rendered decimal must denote exactly the passed value at the parameter's own
		// precision (the shortest float32 decimal is not the float64 expansion).
		want := math.Float64frombits(pr.Bits)
		size := 64
		if pr.Type == "float32" {
			want = float64(math.Float32frombits(uint32(pr.Bits)))
			size = 32
		}
		f, err := strconv.ParseFloat(got, size)
		if err != nil && !(math.IsInf(want, 0) && math.IsInf(f, 0)) {
			return fmt.Errorf("%s rendered %q: %v", pr.Type, got, err)
		}
		if math.IsNaN(want) != math.IsNaN(f) || !math.IsNaN(want) && math.Float64bits(f) != math.Float64bits(want) {
			return fmt.Errorf("%s %v (bits %#x) rendered %q", pr.Type, want, pr.Bits, got)
		}
	case "string":
		if want := fmt.Sprintf("string(%s, len=%d)", hexPtr(ptrs[pr.Var]), vars[pr.Var].Len); !samePtrText(got, want, naming) {
			return fmt.Errorf("string rendered %q, want %q", got, want)
		}
	case "[]int", "[]string", "[]byte":
		if want := fmt.Sprintf("%s(%s len=%d cap=%d)", pr.Type, hexPtr(ptrs[pr.Var]), vars[pr.Var].Len, vars[pr.Var].Cap); !samePtrText(got, want, naming) {
			return fmt.Errorf("slice rendered %q, want %q", got, want)
		}
	default:
		t := pr.Type
		if strings.HasPrefix(t, "func") {
			t = "func"
		}
		want := fmt.Sprintf("%s(%s)", t, hexPtr(ptrs[pr.Var]))
		ok := samePtrText(got, want, naming)
		if !ok && strings.Contains(t, "chan") {
			// a directional channel may be spelled with or without its direction
			el := t[strings.LastIndexByte(t, ' ')+1:]
			ok = samePtrText(got, fmt.Sprintf("chan %s(%s)", el, hexPtr(ptrs[pr.Var])), naming)
		}
		if !ok {
			return fmt.Errorf("%s rendered %q, want %q", pr.Type, got, want)
		}
	}
	return nil
}

func c19Opts(analyze bool) *stack.Opts {
	return &stack.Opts{GuessPaths: true, AnalyzeSources: analyze, LocalGOROOT: runtime.GOROOT()}
}

func c19OptsNaming(analyze, naming bool) *stack.Opts {
	o := c19Opts(analyze)
	o.NameArguments = naming
	return o
}

func findCall(snap *stack.Snapshot, name string) *stack.Call {
	for _, g := range snap.Goroutines {
		for i := range g.Stack.Calls {
			if g.Stack.Calls[i].Func.Name == name {
				return &g.Stack.Calls[i]
			}
		}
	}
	return nil
}

// harmless: source analysis changed nothing but Args.Processed.
func harmless(with, without *stack.Snapshot) error {
	if len(with.Goroutines) != len(without.Goroutines) {
		return fmt.Errorf("source analysis changed the number of goroutines")
	}
	for gi := range with.Goroutines {
		a, b := cloneGoroutine(with.Goroutines[gi]), without.Goroutines[gi]
		for i := range a.Stack.Calls {
			a.Stack.Calls[i].Args.Processed = nil
		}
		if !reflect.DeepEqual(a, b) {
			return fmt.Errorf("source analysis changed goroutine %d beyond the augmented argument text", a.ID)
		}
	}
	return nil
}

var mutationNames = []string{"none", "file deleted", "file unparsable", "lines inserted above", "parameter added", "parameter removed", "parameter retyped", "function renamed", "file replaced", "file truncated",
	// edits that still parse (go/parser checks syntax only) but declare something else than
	// what was compiled
	"receiver list emptied", "two receivers", "receiver dropped", "receiver added", "value receiver", "parameters unnamed", "type parameters added", "last parameter variadic", "parameters retyped exotically", "body moved into a closure", "parameters grouped",
	// one file of the two only
	"only b.go deleted", "only main.go deleted", "only b.go unparsable", "only main.go unparsable",
	// another arity and types the analysis does not decode at the same time (more parameters
	// than the binary printed values, words still left when the odd type comes up)
	"parameter added and scalars retyped exotically", "two parameters added and scalars retyped exotically",
	"strings and slices declared as separate ints, scalars as bytes"}

// goneFile tells whether the mutation kind leaves the named source file missing or
// unparsable - the two cases in which its frames must stay unaugmented altogether.
func goneFile(kind int, name string) bool {
	switch mutationNames[kind] {
	case "file deleted", "file unparsable":
		return true
	case "only b.go deleted", "only b.go unparsable":
		return name == "b.go"
	case "only main.go deleted", "only main.go unparsable":
		return name == "main.go"
	}
	return false
}

func perFileKind(kind int) bool { return strings.HasPrefix(mutationNames[kind], "only ") }

var exoticTypes = []string{"struct{ a int }", "interface{ M() }", "[4]int", "*[]int", "func(int) (string, error)", "map[string][]int", "os.File", "[]os.FileMode", "<-chan int", "chan<- []int", "T[int]", "[]T[int, string]", "*U", "[...]int", "[2][]string", "(int)", "*(*int)", "struct{}", "any", "error", "uintptr", "complex128", "unsafe.Pointer", "[]*struct{ x, y int }"}

func mutateSource(name, src string, kind int) (string, bool) {
	if perFileKind(kind) {
		if !goneFile(kind, name) {
			return src, true
		}
		if strings.HasSuffix(mutationNames[kind], "deleted") {
			return "", false
		}
		return "package main\nfunc ((( {\n" + src, true
	}
	switch kind {
	case 1:
		return "", false
	case 2:
		return "package main\nfunc ((( {\n" + src, true
	case 3:
		return strings.Replace(src, "\nvar _ = math.Pi", strings.Repeat("\n// shifted", 57)+"\nvar _ = math.Pi", 1), true
	case 4:
		return regexp.MustCompile(`(func (\((?:t |_ )?\*[TU]\) )?(?:c\d+f\d+|run\d+)\()`).ReplaceAllString(src, "${1}extra0 string, "), true
	case 5:
		return regexp.MustCompile(`(func (\((?:t |_ )?\*[TU]\) )?(?:c\d+f\d+|run\d+)\()p0 [^,)]+,? ?`).ReplaceAllString(src, "${1}"), true
	case 6:
		return regexp.MustCompile(`p(\d+) (int|uint8|bool|string|float64)([,)])`).ReplaceAllString(src, "p${1} []string${3}"), true
	case 7:
		return regexp.MustCompile(`func (\((?:t |_ )?\*[TU]\) )?(c\d+f|run)(\d+)\(`).ReplaceAllString(src, "func ${1}renamed${2}x${3}("), true
	case 8:
		return "package other\n\nfunc Unrelated(a, b, c, d, e, f, g, h interface{}) {\n}\n", true
	case 9:
		return src[:len(src)/3], true
	case 10:
		return regexp.MustCompile(`func \((?:t |_ )?\*[TU]\) `).ReplaceAllString(src, "func () "), true
	case 11:
		return regexp.MustCompile(`func \((?:t |_ )?\*([TU])\) `).ReplaceAllString(src, "func (t, u *${1}) "), true
	case 12:
		return regexp.MustCompile(`func \((?:t |_ )?\*[TU]\) `).ReplaceAllString(src, "func "), true
	case 13:
		return regexp.MustCompile(`func (c\d+f\d+)\(`).ReplaceAllString(src, "func (t *T) ${1}("), true
	case 14:
		return regexp.MustCompile(`func \((?:t |_ )?\*([TU])\) `).ReplaceAllString(src, "func (t ${1}) "), true
	case 15:
		return regexp.MustCompile(`([(,] ?)p\d+ `).ReplaceAllString(src, "${1}"), true
	case 16:
		return regexp.MustCompile(`func (\((?:t |_ )?\*[TU]\) )?(c\d+f\d+|run\d+)\(`).ReplaceAllString(src, "func ${1}${2}[X any, Y comparable]("), true
	case 17:
		return regexp.MustCompile(`(p\d+) ([^,()]+)\) \{`).ReplaceAllString(src, "${1} ...${2}) {"), true
	case 18:
		n := 0
		return regexp.MustCompile(`p(\d+) (int|uint8|bool|string|float64|int16|uint)([,)])`).ReplaceAllStringFunc(src, func(m string) string {
			sm := regexp.MustCompile(`p(\d+) \w+([,)])`).FindStringSubmatch(m)
			n++
			return "p" + sm[1] + " " + exoticTypes[(n+len(src))%len(exoticTypes)] + sm[2]
		}), true
	case 19:
		return regexp.MustCompile(`\) \{\n\t(defer )?([^\n]+)\n\}`).ReplaceAllString(src, ") {\n\tfunc(q0 string, q1 []int) { ${2} }(\"\", nil)\n}"), true
	case 20:
		return regexp.MustCompile(`p(\d+) ([^,()]+), p(\d+) ([^,()]+)([,)])`).ReplaceAllString(src, "p${1}, p${3} ${4}${5}"), true
	case 25:
		exotic, _ := mutateSource(name, src, 18)
		return mutateSource(name, exotic, 4)
	case 27:
		// built f(s []int, x int), now f(sa, sb, sc int, x byte): the ints use up the slice's
		// words, and the byte - a type that is not decoded - comes at an index the binary
		// printed no top-level value for
		out := regexp.MustCompile(`p(\d+) (?:int|uint|bool|float32|float64|u?int(?:8|16|32|64)|uintptr)([,)])`).ReplaceAllString(src, "p${1} byte${2}")
		out = regexp.MustCompile(`p(\d+) \[\][a-z0-9]+([,)])`).ReplaceAllString(out, "p${1}a, p${1}b, p${1}c int${2}")
		return regexp.MustCompile(`p(\d+) string([,)])`).ReplaceAllString(out, "p${1}a, p${1}b int${2}"), true
	case 26:
		exotic, _ := mutateSource(name, src, 18)
		return regexp.MustCompile(`(func (\((?:t |_ )?\*[TU]\) )?(?:c\d+f\d+|run\d+)\()`).ReplaceAllString(exotic, "${1}extra0 string, extra1 []int, "), true
	}
	return src, true
}

func c19Oracle(p c19Prog) error {
	dir, done := scratchDir("c19")
	defer done()
	if err := c19Check(p, dir); err != nil {
		return err
	}
	if p.Second != nil {
		if err := c19Check(*p.Second, dir); err != nil {
			return fmt.Errorf("second revision of the program in the same directory: %v", err)
		}
	}
	return nil
}

func c19Check(p c19Prog, dir string) error {
	crashes, err := buildAndCrash(&p, dir)
	if err != nil {
		return err
	}
	st := statsFor("C19")
	if p.Mutate != 0 {
		return c19Mismatch(&p, dir, crashes, p.Mutate)
	}
	for ci, cr := range crashes {
		for _, naming := range []bool{false, true} {
			c := ci
			with, _, e1 := stack.ScanSnapshot(bytes.NewReader(cr.stderr), io.Discard, c19OptsNaming(true, naming))
			without, _, e2 := stack.ScanSnapshot(bytes.NewReader(cr.stderr), io.Discard, c19OptsNaming(false, naming))
			if with == nil || without == nil {
				return fmt.Errorf("chain %d: real traceback does not parse (%v / %v): %q", c, e1, e2, quoteShort(cr.stderr))
			}
			if err := harmless(with, without); err != nil {
				return fmt.Errorf("chain %d (sources: %s): %v", c, mutationNames[p.Mutate], err)
			}
			if naming {
				crashes[ci].base[1] = with
			} else {
				crashes[ci].base[0] = with
			}
			for f, fn := range p.Chains[c].Funcs {
				name := p.name(c, f)
				if fn.Recv {
					name = "(*" + fn.recvType() + ")." + name
				}
				call := findCall(with, name)
				if call == nil {
					return fmt.Errorf("chain %d: frame %s not found in the traceback", c, name)
				}
				params := fn.Params
				if fn.Recv {
					rv := Param{Type: "*T", Var: 0}
					if fn.RecvU {
						rv = Param{Type: "*U", Var: 1}
					}
					params = append([]Param{rv}, params...)
				}
				printed := flatCount(&call.Args)
				if len(call.Args.Processed) == 0 && fn.Defer && f+1 < len(p.Chains[c].Funcs) && lastInFile(&p, c, f) {
					// The frame of a function that is running its deferred call is reported at
					// the closing brace; when that brace is the last thing in its file there is no
					// declaration after it for the enclosing-function search to stop at, and the
					// arguments stay raw.  Unaugmented is not untruthful: the property is about the
					// values that are rendered.  (harmless() above still applied.)
					st.count(1, 0)
					st.class("closing_brace_of_last_declaration_left_unaugmented", 1)
					continue
				}
				w := 0
				checked := 0
				for i, pr := range params {
					w += words(pr.Type)
					if w > printed {
						// The runtime elided the rest. A multi-word parameter of which only the
						// first words were printed may be rendered, but nothing may be shown for
						// the words that are missing: a length or capacity the program did not pass.
						if have := printed - (w - words(pr.Type)); have > 0 && i < len(call.Args.Processed) {
							got := call.Args.Processed[i]
							if m := rePartial.FindStringSubmatch(got); m != nil {
								fields := []string{m[1], m[2]} // len, cap ("" for a string)
								for k, f := range fields {
									if k+1 >= have && f != "" && reDecimal.MatchString(f) {
										return fmt.Errorf("%s: parameter %d (%s): only %d of its %d words were printed, yet it is rendered %q - a value for a word the runtime did not print", name, i, pr.Type, have, words(pr.Type), got)
									}
								}
								st.class("partially_printed_parameters", 1)
							}
						}
						break
					}
					if i >= len(call.Args.Processed) {
						return fmt.Errorf("%s: parameter %d (%s) was printed by the runtime but not rendered: %q\nraw: %s", name, i, pr.Type, call.Args.Processed, call.Args.String())
					}
					if err := checkParam(pr, p.Vars, cr.ptrs, call.Args.Processed[i], naming); err != nil {
						var sig []string
						for _, q := range params {
							sig = append(sig, q.Type)
						}
						return fmt.Errorf("%s(%s) (naming=%v): parameter %d: %v\nrendered: %q", name, strings.Join(sig, ", "), naming, i, err, call.Args.Processed)
					}
					checked++
				}
				nt := false
				kinds := map[string]bool{}
				for i, pr := range params {
					kinds[pr.Type] = true
					if i > 0 && words(pr.Type) == 1 && pr.Var < 0 && (words(params[i-1].Type) > 1 || params[i-1].Var >= 0) {
						nt = true
					}
				}
				if nt && len(params) >= 3 && len(kinds) >= 3 {
					st.count(1, 1)
					st.class("position_dependent_decoding", 1)
				} else {
					st.count(1, 0)
				}
				st.class("parameters_checked", int64(checked))
			}
		}
	}
	// The same frames twice in one snapshot (several goroutines parked in the same functions,
	// or recursion): the traceback followed by a second goroutine with the very same frame
	// lines must render both alike - decoding one frame must not disturb the next.
	for ci, cr := range crashes {
		i := bytes.Index(cr.stderr, []byte("goroutine 1 ["))
		if i < 0 {
			continue
		}
		g1 := bytes.TrimRight(cr.stderr[i:], "\n")
		if j := bytes.Index(g1, []byte("\n\n")); j >= 0 {
			g1 = g1[:j]
		}
		nl := bytes.IndexByte(g1, '\n')
		x := append(append(append([]byte{}, cr.stderr[:i]...), g1...), "\n\ngoroutine 2 [runnable]:"...)
		x = append(append(x, g1[nl:]...), '\n')
		two, _, _ := stack.ScanSnapshot(bytes.NewReader(x), io.Discard, c19OptsNaming(true, false))
		if two == nil || len(two.Goroutines) != 2 || len(two.Goroutines[0].Stack.Calls) != len(two.Goroutines[1].Stack.Calls) {
			return fmt.Errorf("HARNESS: the doubled traceback of chain %d does not give two equal goroutines", ci)
		}
		for k := range two.Goroutines[0].Stack.Calls {
			a, b := &two.Goroutines[0].Stack.Calls[k], &two.Goroutines[1].Stack.Calls[k]
			if !reflect.DeepEqual(a.Args.Processed, b.Args.Processed) {
				return fmt.Errorf("chain %d: frame %s occurs in two goroutines of one snapshot with the same argument words (%s) but is rendered %q in the first and %q in the second", ci, a.Func.Name, a.Args.String(), a.Args.Processed, b.Args.Processed)
			}
		}
		st.class("frames_rendered_twice_in_one_snapshot", int64(len(two.Goroutines[0].Stack.Calls)))
	}
	// The same crashes against every kind of mismatching source tree (the build is the
	// expensive part of a case; a scan is not).
	for kind := 1; kind < len(mutationNames); kind++ {
		if err := c19Mismatch(&p, dir, crashes, kind); err != nil {
			return err
		}
	}
	return nil
}

// c19Mismatch rewrites the sources in dir by one mutation kind and requires that analysing
// them changes nothing but the augmented text - in particular that it does not crash.
func c19Mismatch(p *c19Prog, dir string, crashes []crash, kind int) error {
	st := statsFor("C19")
	for name, orig := range p.sources() {
		src, keep := mutateSource(name, orig, kind)
		if keep {
			_ = os.WriteFile(filepath.Join(dir, name), []byte(src), 0o644)
		} else {
			_ = os.Remove(filepath.Join(dir, name))
		}
	}
	for c, cr := range crashes {
		// one scan pair per crash and kind; the naming option alternates
		naming := (c+kind)%2 == 0
		var with, without *stack.Snapshot
		if err := guard(func() error {
			with, _, _ = stack.ScanSnapshot(bytes.NewReader(cr.stderr), io.Discard, c19OptsNaming(true, naming))
			without, _, _ = stack.ScanSnapshot(bytes.NewReader(cr.stderr), io.Discard, c19OptsNaming(false, naming))
			return nil
		}); err != nil {
			return fmt.Errorf("chain %d (sources: %s): %v\ntraceback: %s", c, mutationNames[kind], err, cr.stderr)
		}
		if with == nil || without == nil {
			return fmt.Errorf("chain %d (sources: %s): real traceback does not parse", c, mutationNames[kind])
		}
		if err := harmless(with, without); err != nil {
			return fmt.Errorf("chain %d (sources: %s): %v", c, mutationNames[kind], err)
		}
		// A missing or unparsable file leaves its frames unaugmented; the frames of a file
		// that is still what was compiled are rendered as with the complete tree.
		bi := 0
		if naming {
			bi = 1
		}
		for gi, g := range with.Goroutines {
			for i := range g.Stack.Calls {
				call := &g.Stack.Calls[i]
				file := filepath.Base(call.RemoteSrcPath)
				if file != "main.go" && file != "b.go" || filepath.Dir(call.RemoteSrcPath) != dir {
					continue
				}
				if goneFile(kind, file) {
					if len(call.Args.Processed) != 0 {
						return fmt.Errorf("chain %d (sources: %s): frame %s lies in %s, which cannot be analysed, yet its arguments are rendered as %q (raw: %s)", c, mutationNames[kind], call.Func.Name, file, call.Args.Processed, call.Args.String())
					}
					st.class("frames_required_unaugmented", 1)
				} else if perFileKind(kind) && cr.base[bi] != nil {
					want := cr.base[bi].Goroutines[gi].Stack.Calls[i].Args.Processed
					if !reflect.DeepEqual(call.Args.Processed, want) {
						return fmt.Errorf("chain %d (sources: %s): frame %s lies in %s, which is unchanged, but is rendered as %q instead of %q", c, mutationNames[kind], call.Func.Name, file, call.Args.Processed, want)
					}
					st.class("frames_of_the_intact_file_compared", 1)
				}
			}
		}
		st.count(1, 1)
		st.class("mismatching_sources_"+strings.ReplaceAll(mutationNames[kind], " ", "_"), 1)
	}
	// Two tracebacks as two goroutines of one dump: what cannot be analysed in one goroutine
	// takes nothing away from the other - its frames in the intact file are rendered as with
	// the complete tree.
	if perFileKind(kind) && len(crashes) >= 2 {
		for c := range crashes {
			d := (c + 1) % len(crashes)
			g1, g2 := firstGoroutineText(crashes[c].stderr), firstGoroutineText(crashes[d].stderr)
			base := crashes[d].base[0]
			if g1 == nil || g2 == nil || base == nil {
				continue
			}
			nl := bytes.IndexByte(g2, '\n')
			x := append(append(append([]byte{}, g1...), "\n\ngoroutine 2 [runnable]:"...), g2[nl:]...)
			x = append(x, '\n')
			var both *stack.Snapshot
			if err := guard(func() error {
				both, _, _ = stack.ScanSnapshot(bytes.NewReader(x), io.Discard, c19OptsNaming(true, false))
				return nil
			}); err != nil {
				return fmt.Errorf("chains %d and %d as two goroutines (sources: %s): %v", c, d, mutationNames[kind], err)
			}
			if both == nil || len(both.Goroutines) != 2 || len(both.Goroutines[1].Stack.Calls) != len(base.Goroutines[0].Stack.Calls) {
				continue
			}
			for i := range both.Goroutines[1].Stack.Calls {
				call := &both.Goroutines[1].Stack.Calls[i]
				file := filepath.Base(call.RemoteSrcPath)
				if file != "main.go" && file != "b.go" || filepath.Dir(call.RemoteSrcPath) != dir || goneFile(kind, file) {
					continue
				}
				if want := base.Goroutines[0].Stack.Calls[i].Args.Processed; !reflect.DeepEqual(call.Args.Processed, want) {
					return fmt.Errorf("chains %d and %d as two goroutines of one dump (sources: %s): frame %s of the second lies in %s, which is unchanged, but is rendered as %q instead of %q", c, d, mutationNames[kind], call.Func.Name, file, call.Args.Processed, want)
				}
				st.class("frames_of_the_intact_file_compared_in_a_second_goroutine", 1)
			}
		}
	}
	return nil
}

// firstGoroutineText cuts goroutine 1 (header and frames, no trailing blank line) out of a
// real traceback.
func firstGoroutineText(stderr []byte) []byte {
	i := bytes.Index(stderr, []byte("goroutine 1 ["))
	if i < 0 {
		return nil
	}
	g := bytes.TrimRight(stderr[i:], "\n")
	if j := bytes.Index(g, []byte("\n\n")); j >= 0 {
		g = g[:j]
	}
	return g
}

var c19 = Check[c19Prog]{
	Prop: "C19", Name: "programs",
	Gen: func(t *rapid.T) c19Prog {
		p := genProg(t, n(12, 20))
		p.CRLF = oneIn(t, 4, "crlfSources")
		if oneIn(t, 4, "mismatch") {
			p.Mutate = rapid.IntRange(1, len(mutationNames)-1).Draw(t, "mutation")
		} else if oneIn(t, 3, "secondRevision") {
			q := genProg(t, n(6, 10))
			p.Second = &q
		}
		return p
	},
	Oracle: c19Oracle,
	Obs: func(p c19Prog) Obs {
		return Obs{Nontrivial: false, Classes: []string{"programs"}, Sample: p.source()}
	},
}

func init() { register(c19.key(), c19.Oracle) }

func TestC19(t *testing.T) {
	c := c19
	c.Checks = n(8, 60)
	c.Run(t)
	w := c19TwinCheck
	w.Checks = n(6, 80)
	w.Run(t)
}
