package props

import (
	"bytes"
	"fmt"
	"io"
	"reflect"
	"strings"
	"testing"

	"github.com/maruel/panicparse/v2/stack"
	"pgregory.net/rapid"
)

// C07 — trace delimitation and resumable multi-dump scanning.

func skeletonOf(gs []*stack.Goroutine) []refG {
	var out []refG
	for _, g := range gs {
		r := refG{ID: g.ID, State: g.State, Minutes: g.SleepMax, Locked: g.Locked, Calls: len(g.Stack.Calls), Elided: g.Stack.Elided,
			Created: len(g.CreatedBy.Calls), RaceAddr: g.RaceAddr, RaceWrite: g.RaceWrite}
		if len(g.Stack.Calls) == 1 && g.Stack.Calls[0].RemoteSrcPath == "<unavailable>" {
			r.Unavail = true
			r.Calls = 0
		}
		out = append(out, r)
	}
	return out
}

func errClass(err error) refErr {
	switch err {
	case nil:
		return errNone
	case io.EOF:
		return errEOF
	}
	return errParse
}

var errNames = map[refErr]string{errNone: "nil", errEOF: "EOF", errParse: "a parse error", errAny: "any"}

// againstReference runs the resume loop over x and compares every call with the reference
// automaton. It returns the number of calls compared and whether KF-SEP was met.
func againstReference(x []byte) (calls int, kfsep bool, err error) {
	lines := splitLines(x)
	offsets := make([]int, len(lines)+1)
	for i, l := range lines {
		offsets[i+1] = offsets[i] + len(l)
	}
	from := 0
	cur := x
	for calls = 0; ; calls++ {
		if calls > len(lines)+1 {
			return calls, kfsep, fmt.Errorf("resume loop does not terminate")
		}
		ref := refScanOnce(lines, from)
		if ref.KFSep {
			// With KF-SEP open the reference predicts the known behaviour (separator/warning
			// swallowed), so the comparison goes on; the hit is only counted.
			kfsep = true
		}
		in := bytes.NewReader(cur)
		var w bytes.Buffer
		snap, suffix, e := stack.ScanSnapshot(in, &w, plainOpts())
		rest, _ := io.ReadAll(in)
		rem := append(append([]byte{}, suffix...), rest...)
		where := fmt.Sprintf("call %d (starting at line %d)", calls, from)
		if !bytes.Equal(w.Bytes(), ref.Forward) {
			return calls, kfsep, fmt.Errorf("%s: forwarded text: %s", where, firstDiffBytes(ref.Forward, w.Bytes()))
		}
		if (snap == nil) != (ref.Gs == nil) {
			return calls, kfsep, fmt.Errorf("%s: snapshot returned=%v, grammar says %v", where, snap != nil, ref.Gs != nil)
		}
		got := errClass(e)
		if ref.Err != errAny && got != ref.Err {
			return calls, kfsep, fmt.Errorf("%s: returned %s (%v), grammar says %s", where, errNames[got], e, errNames[ref.Err])
		}
		if !bytes.Equal(rem, x[offsets[ref.Next]:]) {
			return calls, kfsep, fmt.Errorf("%s: remainder should start at line %d: %s", where, ref.Next, firstDiffBytes(x[offsets[ref.Next]:], rem))
		}
		if snap != nil {
			gs := skeletonOf(snap.Goroutines)
			want := ref.Gs
			if got == errParse || ref.Err == errAny {
				// Only the goroutine being read when the dump was invalidated may be partial:
				// compare the identities.
				if len(gs) != len(want) {
					return calls, kfsep, fmt.Errorf("%s: %d goroutines, grammar says %d", where, len(gs), len(want))
				}
				for i := range gs {
					if gs[i].ID != want[i].ID {
						return calls, kfsep, fmt.Errorf("%s: goroutine %d has id %d, grammar says %d", where, i, gs[i].ID, want[i].ID)
					}
				}
			} else if !reflect.DeepEqual(gs, want) {
				return calls, kfsep, fmt.Errorf("%s: snapshot skeleton\n got  %+v\n want %+v", where, gs, want)
			}
			for i, g := range snap.Goroutines {
				if g.First != (i == 0) {
					return calls, kfsep, fmt.Errorf("%s: goroutine %d First=%v", where, i, g.First)
				}
			}
		}
		if e != nil {
			return calls + 1, kfsep, nil
		}
		from = ref.Next
		cur = rem
	}
}

var c07Seq = Check[seqCase]{
	Prop: "C07", Name: "seq",
	Oracle: func(c seqCase) error {
		_, kf, err := againstReference(c.bytes())
		if kf && knownOpen("KF-SEP") {
			statsFor("C07").excluded(1)
		}
		return err
	},
}

// ---- (b) streams: one snapshot per dump, each equal to scanning that dump alone ----------

type c07StreamCase struct {
	S StreamM
	D Delivery
}

func scanAlone(b []byte) (*stack.Snapshot, error) {
	snap, _, err := stack.ScanSnapshot(bytes.NewReader(b), io.Discard, plainOpts())
	return snap, err
}

func c07StreamOracle(c c07StreamCase) error {
	opts, loose := variantOpts(c.S.Bytes())
	defer looseFor(loose)()
	h := resumeLoop(c.D.reader(c.S.Bytes()), opts, len(c.S.Items)+3)
	if err := streamTruth(&c.S, &h, false); err != nil {
		return err
	}
	snaps := h.snapshots()
	for i := range c.S.Items {
		alone, err := scanAloneOpts(c.S.Items[i].dumpBytes(), opts)
		if alone == nil {
			return fmt.Errorf("dump %d scanned alone gives no snapshot (err=%v)", i, err)
		}
		if !reflect.DeepEqual(alone.Goroutines, snaps[i].Goroutines) {
			return fmt.Errorf("dump %d: the snapshot found in the stream differs from scanning the dump alone", i)
		}
	}
	return nil
}

// genAdjacentStream lets dumps follow each other without any text in between wherever the
// grammar keeps them apart.
func genAdjacentStream(t *rapid.T) StreamM {
	o := streamOptsDefault()
	o.MinItems = 2
	o.MaxItems = 5
	s := genStream(t, o)
	for i := 0; i+1 < len(s.Items); i++ {
		it := &s.Items[i]
		if !oneIn(t, 2, "adjacent") {
			continue
		}
		next := &s.Items[i+1]
		switch {
		case it.Race != nil:
			it.After = nil
		case it.Dump.Indent != "":
			// the following line must carry the indentation: keep the junk
		case it.Blank && next.Race != nil:
			it.After = nil
		case !it.Blank:
			lastG := it.Dump.Gs[len(it.Dump.Gs)-1]
			if !(lastG.Unavail && lastG.Creator == nil) {
				it.After = nil
			}
		}
	}
	return s
}

var c07Stream = Check[c07StreamCase]{
	Prop: "C07", Name: "stream",
	Gen:    func(t *rapid.T) c07StreamCase { return c07StreamCase{S: genAdjacentStream(t), D: genDelivery(t)} },
	Oracle: c07StreamOracle,
	Obs: func(c c07StreamCase) Obs {
		o := streamObs(&c.S)
		adj := false
		for i := 0; i+1 < len(c.S.Items); i++ {
			if len(c.S.Items[i].After) == 0 {
				adj = true
			}
		}
		if adj {
			o.Classes = append(o.Classes, "adjacent_dumps")
		}
		o.Nontrivial = len(c.S.Items) >= 2
		if c.D.EOFWithData {
			o.Classes = append(o.Classes, "eof_with_data")
		}
		o.Digest = digestBytes(c.S.Bytes(), []byte(fmt.Sprint(c.D)))
		return o
	},
}

// ---- (c) generated dumps against the reference automaton ----------------------------------

type c07RefCase struct {
	X []byte
}

var c07Ref = Check[c07RefCase]{
	Prop: "C07", Name: "refmut",
	Gen: func(t *rapid.T) c07RefCase {
		x, _ := genFreeInput(t, 4)
		return c07RefCase{X: x}
	},
	Oracle: func(c c07RefCase) error {
		_, kf, err := againstReference(c.X)
		if kf && knownOpen("KF-SEP") {
			statsFor("C07").excluded(1)
		}
		return err
	},
	Obs: func(c c07RefCase) Obs {
		return Obs{Nontrivial: true, Digest: digestBytes(c.X), Classes: []string{"refmut"}, Sample: quoteShort(c.X)}
	},
}

func init() {
	register(c07Seq.key(), c07Seq.Oracle)
	register(c07Stream.key(), c07Stream.Oracle)
	register(c07Ref.key(), c07Ref.Oracle)
}

func TestC07(t *testing.T) {
	st := statsFor("C07")
	maxLen := n(3, 4)
	var cnt, nt int64
	for pi, pre := range parkPrefixes {
		ml := maxLen
		if pi == 0 {
			ml = maxLen + 1
		}
		forEachSeq(ml, func(idx int, seq []int) {
			for v := 0; v < 2; v++ {
				c := seqCase{Prefix: pre, Seq: seq, NoEOL: v == 1, CRLF: idx%5 == 0}
				if !c07Seq.Each(t, c) {
					return
				}
				cnt++
				if (len(pre) > 0 || containsStart(seq)) && !happyPath(pre, seq) {
					nt++
				}
			}
		})
	}
	st.count(cnt, nt)
	st.class("kind_sequences", cnt)
	st.exhaustive(fmt.Sprintf("line-kind sequences vs reference automaton: %d kinds, length<=%d from the initial state, <=%d after each of %d parking prefixes (one per documented scanner state), x{terminated,unterminated last line}", len(seqAlphabet), maxLen+1, maxLen, len(parkPrefixes)-1), cnt)
	st.sample(map[string]any{"kind_sequence": strings.Split(string((&seqCase{Prefix: parkPrefixes[7], Seq: []int{1, 3, 19}}).bytes()), "\n")})

	a := c07Stream
	a.Checks = n(1500, 20000)
	a.Run(t)
	b := c07Ref
	b.Checks = n(2500, 40000)
	b.Run(t)
}

// happyPath: every line is a documented regular successor of its predecessor in the plainest
// dump (header, call, file, [created, file], blank)*.
func happyPath(pre, seq []int) bool {
	all := append(append([]int{}, pre...), seq...)
	next := map[int][]int{0: {3}, 1: {3}, 3: {5}, 5: {3, 6, 7}, 6: {5}, 7: {0, 1}}
	for i := 0; i+1 < len(all); i++ {
		ok := false
		for _, k := range next[all[i]] {
			if k == all[i+1] {
				ok = true
			}
		}
		if !ok {
			return false
		}
	}
	return true
}
