package props

import (
	"bytes"
	"fmt"
	"regexp"
	"strings"
	"testing"
	"unicode/utf8"

	"github.com/maruel/panicparse/v2/stack"
	"pgregory.net/rapid"
)

// C16 — console rendering is complete, aligned and colour-independent.

type c16Case struct {
	D          DumpM
	Race       *RaceM `json:",omitempty"`
	Path       string // "", "-full-path", "-rel-path"
	Aggressive bool
	Regexp     string
}

var reANSI = regexp.MustCompile("\x1b\\[[0-9;]*m")

func (c *c16Case) input() []byte {
	if c.Race != nil {
		return c.Race.Print()
	}
	return c.D.Print()
}

// block is one rendered bucket/goroutine.
type block struct {
	header string
	lines  []string
}

func (b block) text() string { return b.header + "\n" + strings.Join(b.lines, "\n") + "\n" }

type expFrame struct{ pkg, src, fn string }

type expBlock struct {
	header string
	frames []expFrame
	elided bool
}

func srcOf(c *stack.Call, pathMode string) string {
	switch pathMode {
	case "-rel-path":
		if c.RelSrcPath != "" {
			return fmt.Sprintf("%s:%d", c.RelSrcPath, c.Line)
		}
		fallthrough
	case "-full-path":
		if c.LocalSrcPath != "" {
			return fmt.Sprintf("%s:%d", c.LocalSrcPath, c.Line)
		}
		return fmt.Sprintf("%s:%d", c.RemoteSrcPath, c.Line)
	}
	return fmt.Sprintf("%s:%d", c.SrcName, c.Line)
}

func expHeader(lead int, sig *stack.Signature, pathMode string, g *stack.Goroutine) string {
	h := fmt.Sprintf("%d: %s", lead, sig.State)
	if sig.SleepMax != 0 {
		if sig.SleepMin != sig.SleepMax {
			h += fmt.Sprintf(" [%d~%d minutes]", sig.SleepMin, sig.SleepMax)
		} else {
			h += fmt.Sprintf(" [%d minutes]", sig.SleepMax)
		}
	}
	if sig.Locked {
		h += " [locked]"
	}
	if len(sig.CreatedBy.Calls) != 0 {
		c := &sig.CreatedBy.Calls[0]
		h += " [Created by " + c.Func.DirName + "." + c.Func.Name + " @ " + srcOf(c, pathMode) + "]"
	}
	if g != nil && g.RaceAddr != 0 {
		rw := "read"
		if g.RaceWrite {
			rw = "write"
		}
		h += fmt.Sprintf(" Race %s @ 0x%08x", rw, g.RaceAddr)
	}
	return h
}

func expBlockOf(lead int, sig *stack.Signature, pathMode string, g *stack.Goroutine) expBlock {
	b := expBlock{header: expHeader(lead, sig, pathMode, g), elided: sig.Stack.Elided}
	for i := range sig.Stack.Calls {
		c := &sig.Stack.Calls[i]
		b.frames = append(b.frames, expFrame{pkg: c.Func.DirName, src: srcOf(c, pathMode), fn: c.Func.Name + "(" + c.Args.String() + ")"})
	}
	return b
}

// c16Expected: the blocks the console must show, from the library's view of the same input.
func c16Expected(c *c16Case) ([]expBlock, error) {
	opts := stack.DefaultOpts()
	if c.Path != "-rel-path" {
		opts.GuessPaths, opts.AnalyzeSources = false, false
	}
	snap, err := scanAloneOpts(c.input(), opts)
	if snap == nil {
		return nil, fmt.Errorf("no snapshot: %v", err)
	}
	var out []expBlock
	if snap.IsRace() {
		for _, g := range snap.Goroutines {
			out = append(out, expBlockOf(g.ID, &g.Signature, c.Path, g))
		}
		return out, nil
	}
	lvl := stack.AnyPointer
	if c.Aggressive {
		lvl = stack.AnyValue
	}
	for _, b := range snap.Aggregate(lvl).Buckets {
		out = append(out, expBlockOf(len(b.IDs), &b.Signature, c.Path, nil))
	}
	return out, nil
}

// parseConsole checks the uncoloured output against the expected blocks and returns the
// rendered blocks. Alignment: the source column and the function column start at the same
// rune offset in every frame line of the output.
func parseConsole(out []byte, exp []expBlock) ([]block, error) {
	text := string(out)
	if text == "" && len(exp) == 0 {
		return nil, nil
	}
	if !strings.HasSuffix(text, "\n") {
		return nil, fmt.Errorf("output does not end with a newline")
	}
	lines := strings.Split(strings.TrimSuffix(text, "\n"), "\n")
	var blocks []block
	li := 0
	srcCol, fnCol := -1, -1
	for bi, e := range exp {
		if li >= len(lines) {
			return nil, fmt.Errorf("block %d (%q) is missing from the output", bi, e.header)
		}
		// headers may legitimately contain newlines? no: states never contain EOLs.
		if lines[li] != e.header {
			return nil, fmt.Errorf("block %d header: want %q got %q", bi, e.header, lines[li])
		}
		b := block{header: lines[li]}
		li++
		for fi, f := range e.frames {
			if li >= len(lines) {
				return nil, fmt.Errorf("block %d: frame %d missing", bi, fi)
			}
			l := lines[li]
			li++
			b.lines = append(b.lines, l)
			rest, ok := strings.CutPrefix(l, "    "+f.pkg)
			if !ok {
				return nil, fmt.Errorf("block %d frame %d: line %q does not start with the package %q", bi, fi, l, f.pkg)
			}
			pad1 := len(rest) - len(strings.TrimLeft(rest, " "))
			if pad1 < 1 {
				return nil, fmt.Errorf("block %d frame %d: no space after the package in %q", bi, fi, l)
			}
			col1 := 4 + utf8.RuneCountInString(f.pkg) + pad1
			rest = rest[pad1:]
			rest2, ok := strings.CutPrefix(rest, f.src)
			if !ok {
				return nil, fmt.Errorf("block %d frame %d: want source %q at column %d of %q", bi, fi, f.src, col1, l)
			}
			pad2 := len(rest2) - len(strings.TrimLeft(rest2, " "))
			if pad2 < 1 {
				return nil, fmt.Errorf("block %d frame %d: no space after the source in %q", bi, fi, l)
			}
			col2 := col1 + utf8.RuneCountInString(f.src) + pad2
			if rest2[pad2:] != f.fn {
				return nil, fmt.Errorf("block %d frame %d: want function %q got %q", bi, fi, f.fn, rest2[pad2:])
			}
			if srcCol == -1 {
				srcCol, fnCol = col1, col2
			} else if col1 != srcCol || col2 != fnCol {
				return nil, fmt.Errorf("block %d frame %d: columns not aligned: source at %d (others %d), function at %d (others %d): %q", bi, fi, col1, srcCol, col2, fnCol, l)
			}
		}
		if e.elided {
			if li >= len(lines) || lines[li] != "    (...)" {
				return nil, fmt.Errorf("block %d: elision marker missing", bi)
			}
			b.lines = append(b.lines, lines[li])
			li++
		}
		if len(b.lines) == 0 {
			// a goroutine without frames renders an empty line
			if li < len(lines) && lines[li] == "" {
				b.lines = append(b.lines, "")
				li++
			}
		}
		blocks = append(blocks, b)
	}
	if li != len(lines) {
		return nil, fmt.Errorf("%d unexpected extra line(s) in the output, first: %q", len(lines)-li, lines[li])
	}
	return blocks, nil
}

func c16Oracle(c c16Case) error {
	x := c.input()
	exp, err := c16Expected(&c)
	if err != nil {
		return err
	}
	base := []string{}
	if c.Path != "-rel-path" {
		base = append(base, "-rebase=false")
	}
	if c.Path != "" {
		base = append(base, c.Path)
	}
	if c.Path == "-rel-path" {
		// "-rel-path ... implies -rebase": an explicit -rebase=false next to it changes nothing
		switch digestBytes(x) % 3 {
		case 1:
			base = []string{"-rebase=false", "-rel-path"}
		case 2:
			base = []string{"-rel-path", "-rebase=false"}
		}
	}
	if c.Aggressive {
		base = append(base, "-aggressive")
	}
	run := func(extra ...string) ([]byte, error) {
		r, err := runPP(x, append(append([]string{}, base...), extra...)...)
		if err != nil {
			return nil, err
		}
		if r.Code != 0 {
			return nil, fmt.Errorf("pp %v exited %d: %q", extra, r.Code, quoteShort(r.Err))
		}
		return r.Out, nil
	}
	plain, err := run("-no-color")
	if err != nil {
		return err
	}
	blocks, err := parseConsole(plain, exp)
	if err != nil {
		return fmt.Errorf("%v\noutput:\n%s", err, quoteShort(plain))
	}
	colored, err := run("-force-color")
	if err != nil {
		return err
	}
	if stripped := reANSI.ReplaceAll(colored, nil); !bytes.Equal(stripped, plain) {
		return fmt.Errorf("coloured output with the escape sequences removed is not the uncoloured output: %s", firstDiffBytes(plain, stripped))
	}
	reHdr, _ := regexp.Compile(c.Regexp)
	for _, colour := range []string{"-no-color", "-force-color"} {
		if c.Regexp == "" {
			break
		}
		fo, err := run(colour, "-f", c.Regexp)
		if err != nil {
			return err
		}
		mo, err := run(colour, "-m", c.Regexp)
		if err != nil {
			return err
		}
		// colouring never changes the text: compare with the escape sequences removed
		fo, mo = reANSI.ReplaceAll(fo, nil), reANSI.ReplaceAll(mo, nil)
		// Both are sub-sequences of the unfiltered blocks; together they are all of them.
		fi, mi := string(fo), string(mo)
		var fOnly, mOnly int
		for bi, b := range blocks {
			t := b.text()
			inF := strings.HasPrefix(fi, t)
			inM := strings.HasPrefix(mi, t)
			switch {
			case inF && inM:
				// identical blocks may occur twice; prefer the assignment that keeps both consumable
				if strings.Count(fi, t)+strings.Count(mi, t) < 2 {
					return fmt.Errorf("block %d appears in both the filtered and the matched output", bi)
				}
				fi = fi[len(t):]
				fOnly++
			case inF:
				// the direction: -f drops the blocks whose header matches, -m keeps only those
				// (decidable on the uncoloured header, which is what pp matches with -no-color)
				if colour == "-no-color" && reHdr != nil && reHdr.MatchString(b.header+"\n") {
					return fmt.Errorf("block %d (%q): its header matches %q, yet -f shows it and -m does not", bi, b.header, c.Regexp)
				}
				fi = fi[len(t):]
				fOnly++
			case inM:
				if colour == "-no-color" && reHdr != nil && !reHdr.MatchString(b.header+"\n") {
					return fmt.Errorf("block %d (%q): its header does not match %q, yet -m shows it and -f does not", bi, b.header, c.Regexp)
				}
				mi = mi[len(t):]
				mOnly++
			default:
				return fmt.Errorf("block %d (%q) is in neither the -f nor the -m output for %q (%s)", bi, b.header, c.Regexp, colour)
			}
		}
		if fi != "" || mi != "" {
			return fmt.Errorf("-f/-m outputs for %q (%s) contain text that is not an unfiltered block: %q %q", c.Regexp, colour, quoteShort([]byte(fi)), quoteShort([]byte(mi)))
		}
	}
	// Both filters at once: a block is admitted iff its header does not match -f and matches
	// -m. The second expression is a fixed one that splits most outputs ("[" opens the sleep,
	// lock and creator fields of a header).
	if c.Regexp != "" && reHdr != nil {
		const second = `\[`
		re2 := regexp.MustCompile(second)
		both, err := run("-no-color", "-f", c.Regexp, "-m", second)
		if err != nil {
			return err
		}
		var want strings.Builder
		for _, b := range blocks {
			if !reHdr.MatchString(b.header+"\n") && re2.MatchString(b.header+"\n") {
				want.WriteString(b.text())
			}
		}
		if string(both) != want.String() {
			return fmt.Errorf("-f %q together with -m %q: the output is not the blocks whose header fails the first and matches the second: %s", c.Regexp, second, firstDiffBytes([]byte(want.String()), both))
		}
	}
	return nil
}

func genC16(t *rapid.T) c16Case {
	var c c16Case
	if oneIn(t, 6, "race") {
		r := genRace(t, RaceOpts{MaxOps: 3, MaxFrames: 4, Args: true})
		r.CRLF = false
		c.Race = &r
	} else {
		c.D = genDump(t, DumpOpts{MinG: 1, TypicalG: 8, MaxG: 14, MaxFrames: 5, PoolHeavy: true})
		// elided stacks, sleep ranges, locks and creators come from the generator
	}
	c.Path = rapid.SampledFrom([]string{"", "", "-full-path", "-rel-path"}).Draw(t, "path")
	c.Aggressive = rapid.Bool().Draw(t, "aggressive")
	// Regular expressions drawn from the headers.
	exp, err := c16Expected(&c)
	if err == nil && len(exp) > 0 && !oneIn(t, 4, "noRegexp") {
		h := exp[rapid.IntRange(0, len(exp)-1).Draw(t, "hdr")].header
		switch rapid.IntRange(0, 7).Draw(t, "reKind") {
		case 0:
			c.Regexp = regexp.QuoteMeta(h)
		case 1:
			i := rapid.IntRange(0, len(h)-1).Draw(t, "from")
			j := rapid.IntRange(i+1, len(h)).Draw(t, "to")
			c.Regexp = regexp.QuoteMeta(strings.ToValidUTF8(h[i:j], ""))
		case 2:
			h2 := exp[rapid.IntRange(0, len(exp)-1).Draw(t, "hdr2")].header
			c.Regexp = regexp.QuoteMeta(h) + "|" + regexp.QuoteMeta(h2)
		case 3:
			c.Regexp = "^1: "
		case 4:
			c.Regexp = "."
		case 5:
			c.Regexp = "no such header anywhere"
		case 6:
			// anchored at the end of the header
			i := rapid.IntRange(0, len(h)-1).Draw(t, "tailFrom")
			c.Regexp = regexp.QuoteMeta(strings.ToValidUTF8(h[i:], "")) + "$"
		case 7:
			c.Regexp = rapid.SampledFrom([]string{`\]$`, `\[locked\]$`, `^[0-9]+: [a-z ]+$`, `minutes\] \[`, `\] \[Created`, `[a-z] \[`}).Draw(t, "anchored")
		}
		if c.Regexp == "" {
			c.Regexp = "x"
		}
	}
	return c
}

var c16 = Check[c16Case]{
	Prop: "C16", Name: "console",
	Gen:    genC16,
	Oracle: c16Oracle,
	Obs: func(c c16Case) Obs {
		exp, _ := c16Expected(&c)
		pw, sw := map[int]bool{}, map[int]bool{}
		nonASCII := false
		for _, b := range exp {
			for _, f := range b.frames {
				pw[len(f.pkg)] = true
				sw[len(f.src)] = true
				if len(f.pkg) != utf8.RuneCountInString(f.pkg) || len(f.src) != utf8.RuneCountInString(f.src) {
					nonASCII = true
				}
			}
		}
		partial := false
		if c.Regexp != "" {
			if re, err := regexp.Compile(c.Regexp); err == nil {
				m := 0
				for _, b := range exp {
					if re.MatchString(b.header + "\n") {
						m++
					}
				}
				partial = m > 0 && m < len(exp)
			}
		}
		var cl []string
		if nonASCII {
			cl = append(cl, "non_ascii_width")
		}
		if partial {
			cl = append(cl, "regexp_matches_some")
		}
		if c.Race != nil {
			cl = append(cl, "race")
		}
		cl = append(cl, "path"+c.Path)
		return Obs{Nontrivial: len(exp) >= 2 && len(pw) >= 2 && len(sw) >= 2 && partial, Digest: digestBytes(c.input(), []byte(c.Path+c.Regexp+fmt.Sprint(c.Aggressive))), Classes: cl,
			Sample: map[string]any{"input": quoteShort(truncBytes(c.input(), 600)), "path": c.Path, "aggressive": c.Aggressive, "regexp": c.Regexp}}
	},
}

func init() { register(c16.key(), c16.Oracle) }

func TestC16(t *testing.T) {
	c := c16
	c.Checks = n(300, 2500)
	c.Run(t)
}
