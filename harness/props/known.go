package props

import (
	"encoding/json"
	"os"
	"sync"
)

// Known findings (/verif/known_findings.json) are read-only at run time. An "open" entry
// names a predicate implemented in the oracles; a failure that satisfies the predicate is
// counted as a known-finding hit instead of a violation. "fixed" entries suppress nothing.

type knownFinding struct {
	ID         string   `json:"id"`
	Property   string   `json:"property"`
	Properties []string `json:"properties"`
	Status     string   `json:"status"`
	What       string   `json:"what"`
}

var (
	knownOnce sync.Once
	knownMap  map[string]knownFinding
)

func knownOpen(id string) bool {
	knownOnce.Do(func() {
		knownMap = map[string]knownFinding{}
		if os.Getenv("VERIF_IGNORE_KNOWN") == "1" {
			return
		}
		b, err := os.ReadFile(cfg.Known)
		if err != nil {
			return
		}
		var f struct {
			Findings []knownFinding `json:"findings"`
		}
		if json.Unmarshal(b, &f) == nil {
			for _, k := range f.Findings {
				knownMap[k.ID] = k
			}
		}
	})
	return knownMap[id].Status == "open"
}
