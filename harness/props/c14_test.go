package props

import (
	"bytes"
	"fmt"
	"html/template"
	"io"
	"reflect"
	"runtime"
	"sync"
	"testing"

	"github.com/maruel/panicparse/v2/stack"
	"pgregory.net/rapid"
)

// C14 — snapshots are immutable under aggregation/rendering; the API is concurrency-safe.

type c14Case struct {
	D       DumpM
	Naming  bool
	Actions []int // 0..3 Aggregate(level), 4 Aggregated.ToHTML, 5 Snapshot.ToHTML, 6 IsRace
	// Processed: every frame carries the typed argument texts source analysis adds
	Processed bool `json:",omitempty"`
	// Race: the snapshot is a race report (aggregating one is allowed) whose goroutines share
	// operation and creation stacks up to pointer arguments - also in the creation frames
	Race *RaceM `json:",omitempty"`
}

var actionNames = []string{"Aggregate(ExactFlags)", "Aggregate(ExactLines)", "Aggregate(AnyPointer)", "Aggregate(AnyValue)", "Aggregated.ToHTML", "Snapshot.ToHTML", "IsRace"}

// setProcessed gives every frame that has arguments the typed rendering source analysis
// would add (one text per top-level argument), so that histories also run on snapshots as
// the default options produce them.
func setProcessed(s *stack.Snapshot) {
	for _, g := range s.Goroutines {
		for i := range g.Stack.Calls {
			a := &g.Stack.Calls[i].Args
			a.Processed = nil
			for k := 0; k < len(a.Values); k++ {
				// a string takes two words, a slice three: the texts are fewer than the values
				txt := "T(" + a.Values[k].String()
				for extra := int(a.Values[k].Value % 3); extra > 0 && k+1 < len(a.Values); extra-- {
					k++
					txt += " " + a.Values[k].String()
				}
				a.Processed = append(a.Processed, txt+")")
			}
		}
	}
}

func c14Oracle(c c14Case) error {
	// two GOPATHs, not in alphabetical order (unused without path guessing, but part of the
	// snapshot, which shares the slice with the options)
	wantGopaths := []string{"/zz/gopath", "/aa/gopath"}
	opts := &stack.Opts{NameArguments: c.Naming, LocalGOPATHs: append([]string(nil), wantGopaths...)}
	parse := func() (*stack.Snapshot, error) {
		if c.Race != nil {
			s, err := scanAloneOpts(c.Race.Print(), opts)
			if s == nil {
				return nil, fmt.Errorf("HARNESS: generated race report does not parse: %v", err)
			}
			if c.Processed {
				setProcessed(s)
			}
			return s, nil
		}
		s, err := parseDump(&c.D, opts)
		if err == nil && c.Processed {
			setProcessed(s)
		}
		return s, err
	}
	work, err := parse()
	if err != nil {
		return err
	}
	twin, err := parse()
	if err != nil {
		return err
	}
	fresh := func(l stack.Similarity) []*stack.Bucket {
		s, _ := parse()
		return s.Aggregate(l).Buckets
	}
	var firstRes [4][]*stack.Bucket
	var lastAgg *stack.Aggregated
	for step, a := range c.Actions {
		switch {
		case a < 4:
			ag := work.Aggregate(allLevels[a])
			lastAgg = ag
			if firstRes[a] == nil {
				firstRes[a] = ag.Buckets
				if want := fresh(allLevels[a]); !reflect.DeepEqual(ag.Buckets, want) {
					return fmt.Errorf("step %d %s: buckets differ from those of a freshly parsed snapshot (after %v)", step, actionNames[a], names(c.Actions[:step]))
				}
			} else if !reflect.DeepEqual(ag.Buckets, firstRes[a]) {
				return fmt.Errorf("step %d %s: buckets differ from the first aggregation at this level (after %v)", step, actionNames[a], names(c.Actions[:step]))
			}
		case a == 4:
			if lastAgg == nil {
				lastAgg = work.Aggregate(stack.AnyPointer)
			}
			if err := lastAgg.ToHTML(io.Discard, template.HTML("")); err != nil {
				return fmt.Errorf("step %d ToHTML: %v", step, err)
			}
		case a == 5:
			if err := work.ToHTML(io.Discard, template.HTML("")); err != nil {
				return fmt.Errorf("step %d ToHTML: %v", step, err)
			}
		case a == 6:
			_ = work.IsRace()
		}
		if !reflect.DeepEqual(work.Goroutines, twin.Goroutines) {
			for i := range work.Goroutines {
				if !reflect.DeepEqual(work.Goroutines[i], twin.Goroutines[i]) {
					return fmt.Errorf("after step %d (%v) goroutine %d of the snapshot is no longer what was parsed", step, names(c.Actions[:step+1]), work.Goroutines[i].ID)
				}
			}
		}
		if !reflect.DeepEqual(work, twin) {
			return fmt.Errorf("after step %d (%v) the snapshot changed", step, names(c.Actions[:step+1]))
		}
		if !reflect.DeepEqual(work.LocalGOPATHs, wantGopaths) {
			return fmt.Errorf("after step %d (%v) the snapshot's LocalGOPATHs are %q, were %q", step, names(c.Actions[:step+1]), work.LocalGOPATHs, wantGopaths)
		}
		// Earlier results must not be modified by later calls either.
		for l := range firstRes {
			if firstRes[l] != nil && step%5 == 4 {
				if want := fresh(allLevels[l]); !reflect.DeepEqual(firstRes[l], want) {
					return fmt.Errorf("after step %d (%v) the buckets returned earlier for %s were modified", step, names(c.Actions[:step+1]), levelNames[allLevels[l]])
				}
			}
		}
	}
	return nil
}

func names(a []int) []string {
	var o []string
	for _, x := range a {
		o = append(o, actionNames[x])
	}
	return o
}

var c14Hist = Check[c14Case]{
	Prop: "C14", Name: "history",
	Gen: func(t *rapid.T) c14Case {
		if oneIn(t, 6, "raceSnapshot") {
			r := genAggRace(t)
			for i := 1; i < len(r.Secs); i++ {
				if sl := scalarSlots(r.Secs[i].Frames); len(sl) > 0 && rapid.Bool().Draw(t, "creatorArg") {
					sl[0].Val = 0xc000100000 + uint64(i)*8
				}
			}
			return c14Case{Race: &r, Naming: rapid.Bool().Draw(t, "naming"), Processed: oneIn(t, 3, "processed"),
				Actions: rapid.SliceOfN(rapid.IntRange(0, 6), 1, 30).Draw(t, "actions")}
		}
		return c14Case{D: genAggDump(t, 20), Naming: rapid.Bool().Draw(t, "naming"), Processed: oneIn(t, 3, "processed"),
			Actions: rapid.SliceOfN(rapid.IntRange(0, 6), 1, 30).Draw(t, "actions")}
	},
	Oracle: c14Oracle,
	Obs: func(c c14Case) Obs {
		// non-trivial: >=2 aggregations at different levels with a merge, followed by a use
		lv := map[int]bool{}
		for _, a := range c.Actions[:max(0, len(c.Actions)-1)] {
			if a < 4 {
				lv[a] = true
			}
		}
		merge := false
		in := c.D.Print()
		if c.Race != nil {
			in = c.Race.Print()
			if s, _ := scanAloneOpts(in, plainOpts()); s != nil {
				merge = mixedBucket(s)
			}
		} else if s, err := parseDump(&c.D, plainOpts()); err == nil {
			merge = mixedBucket(s)
		}
		cl := []string{}
		if merge {
			cl = append(cl, "merge_happens")
		}
		if c.Race != nil {
			cl = append(cl, "race_snapshot")
		}
		return Obs{Nontrivial: len(lv) >= 2 && merge, Digest: digestBytes(in, []byte(fmt.Sprint(c.Actions, c.Naming, c.Processed))), Classes: cl,
			Sample: map[string]any{"actions": names(c.Actions), "dump": quoteShort(truncBytes(in, 500))}}
	},
}

// ---- concurrent use --------------------------------------------------------------------------

type c14ConcCase struct {
	D       DumpM
	Workers [][]int // per goroutine: ops 0..3 Aggregate(level) on the shared snapshot, 4 Aggregated.ToHTML, 5 Snapshot.ToHTML, 6 scan with the shared Opts, 7 yield, 8 Args.String() of every call, 9 race report remainder, 10 scan of the worker's own dump with naming on
	Procs   int
}

func c14ConcOracle(c c14ConcCase) error {
	fix := fixtureDir()
	x := bytes.ReplaceAll(c.D.Print(), []byte("@FIX@"), []byte(fix))
	shared := &stack.Opts{NameArguments: true, GuessPaths: true, AnalyzeSources: true, LocalGOROOT: runtime.GOROOT(), LocalGOPATHs: []string{fix + "/gopath", fix}}
	scan := func() (*stack.Snapshot, error) {
		s, _, err := stack.ScanSnapshot(bytes.NewReader(x), io.Discard, shared)
		if s == nil {
			return nil, fmt.Errorf("no snapshot: %v", err)
		}
		return s, nil
	}
	snap, err := scan()
	if err != nil {
		return err
	}
	// Sequential reference results.
	var want [4][]*stack.Bucket
	for i, l := range allLevels {
		want[i] = snap.Aggregate(l).Buckets
	}
	var wantHTML [2][]byte
	{
		var b bytes.Buffer
		_ = snap.Aggregate(stack.AnyPointer).ToHTML(&b, "")
		wantHTML[0] = maskHTML(b.Bytes())
		b = bytes.Buffer{}
		_ = snap.ToHTML(&b, "")
		wantHTML[1] = maskHTML(b.Bytes())
	}
	pristine := cloneSnapshot(snap)
	// every worker also has a dump of its own (other pointer values, hence other names), with
	// its sequential scan as the reference
	own := make([][]byte, len(c.Workers))
	ownWant := make([]*stack.Snapshot, len(c.Workers))
	for w := range c.Workers {
		own[w] = bytes.ReplaceAll(x, []byte("0xc0000"), []byte(fmt.Sprintf("0xc%03x0", w+1)))
		s, _, _ := stack.ScanSnapshot(bytes.NewReader(own[w]), io.Discard, &stack.Opts{NameArguments: true})
		if s == nil {
			return fmt.Errorf("HARNESS: worker dump %d does not parse", w)
		}
		ownWant[w] = s
	}
	old := runtime.GOMAXPROCS(c.Procs)
	defer runtime.GOMAXPROCS(old)
	start := make(chan struct{})
	errs := make([]error, len(c.Workers))
	var wg sync.WaitGroup
	for w, ops := range c.Workers {
		wg.Add(1)
		go func(w int, ops []int) {
			defer wg.Done()
			defer func() {
				if r := recover(); r != nil {
					errs[w] = fmt.Errorf("worker %d panicked: %v", w, r)
				}
			}()
			<-start
			for _, op := range ops {
				switch {
				case op < 4:
					if got := snap.Aggregate(allLevels[op]).Buckets; !reflect.DeepEqual(got, want[op]) {
						errs[w] = fmt.Errorf("worker %d: concurrent %s differs from the sequential result", w, actionNames[op])
						return
					}
				case op == 4 || op == 5:
					var b bytes.Buffer
					if op == 4 {
						_ = snap.Aggregate(stack.AnyPointer).ToHTML(&b, "")
					} else {
						_ = snap.ToHTML(&b, "")
					}
					if !bytes.Equal(maskHTML(b.Bytes()), wantHTML[op-4]) {
						errs[w] = fmt.Errorf("worker %d: concurrent HTML rendering differs from the sequential one", w)
						return
					}
				case op == 6:
					s, err := scan()
					if err != nil {
						errs[w] = err
						return
					}
					if !reflect.DeepEqual(s.Goroutines, pristine.Goroutines) {
						errs[w] = fmt.Errorf("worker %d: concurrent scan differs from the sequential one", w)
						return
					}
				case op == 9:
					// a race report followed by text: the returned remainder must still read the
					// same after another, unrelated scan (here and in other goroutines)
					tail := []byte(fmt.Sprintf("worker %d tail line\nsecond tail line of worker %d\n", w, w))
					in := append(append([]byte("intro\n"), raceFixture...), tail...)
					sn, suffix, err := stack.ScanSnapshot(bytes.NewReader(in), io.Discard, &stack.Opts{})
					if sn == nil || err != nil {
						errs[w] = fmt.Errorf("worker %d: race fixture: snapshot=%v err=%v", w, sn != nil, err)
						return
					}
					_, _, _ = stack.ScanSnapshot(bytes.NewReader(bytes.Repeat([]byte("overwrite the read buffer with other text\n"), 300)), io.Discard, &stack.Opts{})
					runtime.Gosched()
					if !bytes.Equal(suffix, tail) {
						errs[w] = fmt.Errorf("worker %d: the remainder returned by an earlier scan changed after a later scan: %q", w, quoteShort(suffix))
						return
					}
					if sn.Goroutines[0].State != "running" || sn.Goroutines[0].Stack.Calls[0].Func.Name != "racer.func1" {
						errs[w] = fmt.Errorf("worker %d: an earlier snapshot changed after a later scan", w)
						return
					}
				case op == 12:
					// a line longer than the read buffer, forwarded to a writer that is slow to take
					// it, while other goroutines scan long lines of their own
					long := bytes.Repeat([]byte(fmt.Sprintf("worker-%d|", w)), 2200)
					in := append(append(append([]byte{}, long...), '\n'), raceFixture...)
					sw := &slowWriter{}
					sn, _, _ := stack.ScanSnapshot(bytes.NewReader(in), sw, &stack.Opts{})
					if sn == nil || !bytes.Equal(sw.b.Bytes(), append(long, '\n')) {
						errs[w] = fmt.Errorf("worker %d: a %d byte line forwarded to a slow writer while other goroutines scan arrived altered (or the report after it was not found): %s", w, len(long), firstDiffBytes(append(long, '\n'), sw.b.Bytes()))
						return
					}
				case op == 11:
					// rendering into a writer that is slow to take the bytes (a network client)
					sw := &slowWriter{}
					_ = snap.Aggregate(stack.AnyPointer).ToHTML(sw, "")
					if !bytes.Equal(maskHTML(sw.b.Bytes()), wantHTML[0]) {
						errs[w] = fmt.Errorf("worker %d: the page received by a slow writer while other goroutines render differs from the sequential rendering", w)
						return
					}
				case op == 10:
					s, _, _ := stack.ScanSnapshot(bytes.NewReader(own[w]), io.Discard, &stack.Opts{NameArguments: true})
					if s == nil || !reflect.DeepEqual(s.Goroutines, ownWant[w].Goroutines) {
						errs[w] = fmt.Errorf("worker %d: the scan of its own dump (pointer naming on) while other goroutines scan theirs differs from the same scan run alone", w)
						return
					}
				case op == 8:
					// the text building block of every renderer: Signature/Args/Arg String()
					for _, g := range snap.Goroutines {
						_ = g.SleepString()
						for ci := range g.Stack.Calls {
							_ = g.Stack.Calls[ci].Args.String()
							_ = g.Stack.Calls[ci].Func.String()
						}
					}
				default:
					runtime.Gosched()
				}
			}
		}(w, ops)
	}
	close(start)
	wg.Wait()
	for _, e := range errs {
		if e != nil {
			return e
		}
	}
	if !reflect.DeepEqual(snap.Goroutines, pristine.Goroutines) {
		return fmt.Errorf("the shared snapshot was modified by concurrent use")
	}
	return nil
}

// slowWriter takes what it is given in small pieces and yields between them.
type slowWriter struct{ b bytes.Buffer }

func (w *slowWriter) Write(p []byte) (int, error) {
	for off := 0; off < len(p); off += 512 {
		w.b.Write(p[off:min(len(p), off+512)])
		runtime.Gosched()
	}
	return len(p), nil
}

var raceFixture = []byte("==================\nWARNING: DATA RACE\nRead at 0x00c000012340 by goroutine 7:\n  main.racer.func1()\n      /src/r.go:12 +0x3a\n\nPrevious write at 0x00c000012340 by goroutine 6:\n  main.racer.func1()\n      /src/r.go:12 +0x50\n\nGoroutine 7 (running) created at:\n  main.racer()\n      /src/r.go:20 +0x8f\n\nGoroutine 6 (finished) created at:\n  main.racer()\n      /src/r.go:20 +0x8f\n==================\n")

var c14Conc = Check[c14ConcCase]{
	Prop: "C14", Name: "concurrent",
	Gen: func(t *rapid.T) c14ConcCase {
		d := genAggDump(t, 12)
		// some frames point into the fixture tree so that source analysis runs concurrently too
		for gi := range d.Gs {
			for fi := range d.Gs[gi].Frames {
				if oneIn(t, 4, "fixtureFrame") {
					f := &d.Gs[gi].Frames[fi]
					f.Pkg, f.Name, f.File, f.Line = "main", "F1", "@FIX@/main.go", 6
					// enough words for several typed parameters, sometimes with the "..." marker
					f.Inlined = false
					f.Args = ArgListM{Dots: rapid.Bool().Draw(t, "fixDots")}
					for k, nw := 0, rapid.IntRange(1, 9).Draw(t, "fixWords"); k < nw; k++ {
						f.Args.Items = append(f.Args.Items, ArgM{Val: uint64(0xc000010000 + k*8)})
					}
				}
			}
		}
		nw := rapid.IntRange(2, 16).Draw(t, "workers")
		c := c14ConcCase{D: d, Procs: rapid.SampledFrom([]int{1, 2, 16}).Draw(t, "procs")}
		for w := 0; w < nw; w++ {
			c.Workers = append(c.Workers, rapid.SliceOfN(rapid.IntRange(0, 12), 1, 8).Draw(t, "ops"))
		}
		return c
	},
	Oracle: c14ConcOracle,
	Obs: func(c c14ConcCase) Obs {
		return Obs{Nontrivial: len(c.Workers) >= 2, Digest: digestBytes(c.D.Print(), []byte(fmt.Sprint(c.Workers, c.Procs))), Classes: []string{fmt.Sprintf("gomaxprocs_%d", c.Procs)},
			Sample: map[string]any{"workers": c.Workers, "gomaxprocs": c.Procs}}
	},
}

func init() {
	register(c14Hist.key(), c14Hist.Oracle)
	register(c14Conc.key(), c14Conc.Oracle)
}

func TestC14(t *testing.T) {
	a := c14Hist
	a.Checks = n(250, 3000)
	a.Run(t)
	b := c14Conc
	b.Checks = n(50, 600)
	b.Run(t)
	c := c14Src
	c.Checks = n(2, 30)
	c.Run(t)
	d := c14First
	d.Checks = n(12, 200)
	d.Run(t)
}
