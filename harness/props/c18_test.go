package props

import (
	"fmt"
	"os"
	"path/filepath"
	"strings"
	"testing"

	"github.com/maruel/panicparse/v2/stack"
	"pgregory.net/rapid"
)

// C18 — path rebasing maps remote paths to the right local files and classes.

type c18Case struct {
	L     Layout
	Order []int // which files the dump references, in frame order (indexes into L.truths)
	// Race: the frames are the operation stacks of a race report whose creation stacks start in
	// a file under no root (the go-test generated main), instead of a goroutine dump
	Race bool `json:",omitempty"`
	// EnvSlash: the local GOPATHs come from $GOPATH through DefaultOpts(), entry i written with
	// a trailing slash when EnvSlash[i] (nil: Opts filled in directly)
	EnvSlash []bool `json:",omitempty"`
	// Again: the same Opts value is used for a second scan of the same dump, which must find
	// the Opts untouched and give the same snapshot
	Again bool `json:",omitempty"`
}

const testMainPath = "/tmp/go-build123/b001/_test/_testmain.go"

func scratchDir(prefix string) (string, func()) {
	base := os.Getenv("VERIF_WORK")
	if base == "" {
		base = os.TempDir()
	}
	d, err := os.MkdirTemp(base, prefix)
	if err != nil {
		panic("HARNESS: " + err.Error())
	}
	return d, func() {
		os.RemoveAll(d)
		// modules laid out directly under the file system root (LModule.Top)
		if tops, _ := filepath.Glob(topPrefix(d) + "*"); len(tops) > 0 {
			for _, p := range tops {
				os.RemoveAll(p)
			}
		}
	}
}

// c18Resolve materialises the layout, scans the dump with path guessing and returns the
// frames with their truths.
func c18Resolve(c *c18Case, base string) (*stack.Snapshot, []fileTruth, []*stack.Call, error) {
	if err := c.L.materialise(base); err != nil {
		return nil, nil, nil, fmt.Errorf("HARNESS: %v", err)
	}
	truths := c.L.truths(base)
	at := c.L.at(base)
	if c.L.TestMain {
		tm := testMainPath
		switch {
		case c.L.TestMainAt == 1 && len(c.L.Gopaths) > 0:
			tm = at.Gopaths[0].Remote + "/src/example.com/p/_test/_testmain.go"
		case c.L.TestMainAt == 2 && len(c.L.Modules) > 0:
			tm = c.L.Modules[0].root(base) + "/_test/_testmain.go"
		case c.L.TestMainAt == 3 && c.L.GorootRemote != "":
			tm = at.GorootRemote + "/src/fmt/_test/_testmain.go"
		}
		truths = append(truths, fileTruth{Remote: tm, Loc: stack.Stdlib, Testmain: true})
	}
	var refs []string
	for _, t := range truths {
		refs = append(refs, t.Remote)
	}
	var order []int
	for _, k := range c.Order {
		if k < len(truths) {
			order = append(order, k)
		}
	}
	if len(order) == 0 {
		return nil, nil, nil, nil
	}
	used := []string{"/tmp/go-build55/b001/gen.go", "/tmp/go-build77/b001/_testmain.go"}
	for _, k := range order {
		used = append(used, refs[k])
	}
	if hostInterferes(used, base) {
		statsFor("C18").class("skipped_remote_path_exists_on_this_machine", 1)
		return nil, nil, nil, nil
	}
	d := dumpFor(refs, order)
	opts := &stack.Opts{GuessPaths: true, LocalGOROOT: c.L.localGoroot(base), LocalGOPATHs: c.L.localGopaths(base)}
	if gps := c.L.localGopaths(base); len(c.EnvSlash) != 0 && len(gps) != 0 {
		var spelled []string
		for i, g := range gps {
			if c.EnvSlash[i%len(c.EnvSlash)] {
				g += "/"
			}
			spelled = append(spelled, g)
		}
		old, had := os.LookupEnv("GOPATH")
		os.Setenv("GOPATH", strings.Join(spelled, string(os.PathListSeparator)))
		opts.LocalGOPATHs = stack.DefaultOpts().LocalGOPATHs
		if had {
			os.Setenv("GOPATH", old)
		} else {
			os.Unsetenv("GOPATH")
		}
	}
	snap, ts, calls, err := c18Scan(c, &d, opts, truths, order)
	if err != nil || !c.Again {
		return snap, ts, calls, err
	}
	_, _, calls2, err := c18Scan(c, &d, opts, truths, order)
	if err != nil {
		return nil, nil, nil, fmt.Errorf("second scan with the same Opts: %v", err)
	}
	// the first scan is held against the truth by the caller; the second must resolve alike
	for i := range calls {
		a, b := calls[i], calls2[i]
		if a.LocalSrcPath != b.LocalSrcPath || a.RelSrcPath != b.RelSrcPath || a.ImportPath != b.ImportPath || a.Location != b.Location {
			return nil, nil, nil, fmt.Errorf("a second scan of the same dump with the same Opts resolves frame %s differently:\n first  local=%q rel=%q import=%q location=%s\n second local=%q rel=%q import=%q location=%s",
				a.RemoteSrcPath, a.LocalSrcPath, a.RelSrcPath, a.ImportPath, a.Location, b.LocalSrcPath, b.RelSrcPath, b.ImportPath, b.Location)
		}
	}
	return snap, ts, calls, nil
}

func c18Scan(c *c18Case, dp *DumpM, opts *stack.Opts, truths []fileTruth, order []int) (*stack.Snapshot, []fileTruth, []*stack.Call, error) {
	d := *dp
	var snap *stack.Snapshot
	var err error
	if c.Race && len(d.Gs) >= 2 {
		var r RaceM
		for i, g := range d.Gs {
			r.Ops = append(r.Ops, RaceOp{Write: i%2 == 0, Addr: 0xc000012340, ID: g.ID, Frames: g.Frames})
			r.Secs = append(r.Secs, RaceSec{ID: g.ID, Frames: []FrameM{
				{Pkg: "main", Name: "spawn", File: g.Frames[0].File, Line: 3, PCOff: 1},
				{Pkg: "main", Name: "main", File: "/tmp/go-build77/b001/_testmain.go", Line: 47, PCOff: 1}}})
		}
		snap, err = scanAloneOpts(r.Print(), opts)
		if snap == nil || len(snap.Goroutines) != len(d.Gs) {
			return nil, nil, nil, fmt.Errorf("HARNESS: generated race report does not parse: %v", err)
		}
		err = nil
	} else {
		snap, err = parseDump(&d, opts)
	}
	if err != nil {
		return nil, nil, nil, err
	}
	if snap == nil {
		return nil, nil, nil, fmt.Errorf("HARNESS: no snapshot")
	}
	var ts []fileTruth
	var calls []*stack.Call
	k := 0
	for _, g := range snap.Goroutines {
		for i := range g.Stack.Calls {
			ts = append(ts, truths[order[k]])
			calls = append(calls, &g.Stack.Calls[i])
			k++
		}
	}
	return snap, ts, calls, nil
}

func hasPathPrefix(p, root string) bool { return strings.HasPrefix(p, root+"/") }

func c18Validity(snap *stack.Snapshot, base string, l *Layout, ts []fileTruth, calls []*stack.Call) error {
	for i, c := range calls {
		where := fmt.Sprintf("frame %s (location %s)", c.RemoteSrcPath, c.Location)
		if c.LocalSrcPath != "" {
			if c.RelSrcPath == "" || !strings.HasSuffix(c.LocalSrcPath, "/"+c.RelSrcPath) || !strings.HasSuffix(c.RemoteSrcPath, "/"+c.RelSrcPath) {
				return fmt.Errorf("%s: local path %q / remote path do not end with the relative path %q", where, c.LocalSrcPath, c.RelSrcPath)
			}
		} else if c.RelSrcPath != "" {
			return fmt.Errorf("%s: relative path %q without a local path", where, c.RelSrcPath)
		}
		if ts[i].Testmain {
			if c.Location != stack.Stdlib {
				return fmt.Errorf("%s: the go-test generated main must be standard library", where)
			}
			continue
		}
		if snap.RemoteGOROOT != "" && hasPathPrefix(c.RemoteSrcPath, snap.RemoteGOROOT+"/src") && c.Location != stack.Stdlib {
			// the detected Go root explains every frame below its src directory, also when the
			// Go root itself lies inside a GOPATH (a toolchain in the module cache)
			return fmt.Errorf("%s: lies below the detected remote Go root %q but is not classified as standard library", where, snap.RemoteGOROOT)
		}
		if c.Location == stack.GoMod {
			// among the detected module roots the nearest one owns the file (a module nested
			// in another one: Go's own rule)
			used := strings.TrimSuffix(c.LocalSrcPath, "/"+c.RelSrcPath)
			for root := range snap.LocalGomods {
				if hasPathPrefix(c.LocalSrcPath, root) && len(root) > len(used) {
					return fmt.Errorf("%s: resolved against the module root %q although the detected root %q is nearer to it", where, used, root)
				}
			}
		}
		switch c.Location {
		case stack.Stdlib:
			if snap.RemoteGOROOT == "" || !hasPathPrefix(c.RemoteSrcPath, snap.RemoteGOROOT+"/src") {
				return fmt.Errorf("%s: remote Go root %q is not a prefix of it", where, snap.RemoteGOROOT)
			}
			if !hasPathPrefix(c.LocalSrcPath, snap.LocalGOROOT+"/src") {
				return fmt.Errorf("%s: local path %q is not under the local Go root", where, c.LocalSrcPath)
			}
		case stack.GOPATH, stack.GoPkg:
			sub := "/src"
			if c.Location == stack.GoPkg {
				sub = "/pkg/mod"
			}
			ok := false
			for r, loc := range snap.RemoteGOPATHs {
				if hasPathPrefix(c.RemoteSrcPath, r+sub) && hasPathPrefix(c.LocalSrcPath, loc+sub) {
					ok = true
				}
			}
			if !ok {
				return fmt.Errorf("%s: no detected GOPATH %v explains it (local %q)", where, snap.RemoteGOPATHs, c.LocalSrcPath)
			}
		case stack.GoMod:
			ok := false
			for r := range snap.LocalGomods {
				if hasPathPrefix(c.RemoteSrcPath, r) {
					ok = true
				}
			}
			if !ok || c.LocalSrcPath != c.RemoteSrcPath {
				return fmt.Errorf("%s: no detected module root %v explains it (local %q)", where, sortedKeys(snap.LocalGomods), c.LocalSrcPath)
			}
		case stack.LocationUnknown:
			if c.LocalSrcPath != "" || c.RelSrcPath != "" {
				return fmt.Errorf("%s: unknown location but local path %q", where, c.LocalSrcPath)
			}
		default:
			return fmt.Errorf("%s: invalid location %d", where, c.Location)
		}
		if !ts[i].Known && c.Location != stack.LocationUnknown && !l.ambiguous(base, ts) {
			return fmt.Errorf("%s lies under none of the roots but was classified", where)
		}
	}
	return nil
}

func c18Oracle(c c18Case) error {
	base, done := scratchDir("c18")
	defer done()
	snap, ts, calls, err := c18Resolve(&c, base)
	if err != nil || snap == nil {
		return err
	}
	if err := c18Validity(snap, base, &c.L, ts, calls); err != nil {
		return err
	}
	st := statsFor("C18")
	if err := c18Merged(snap); err != nil {
		return err
	}
	if err := c18Creators(snap); err != nil {
		return err
	}
	if c.L.ambiguous(base, ts) {
		st.class("ambiguous_layout_validity_only", 1)
		return nil
	}
	st.class("unambiguous_layout_ground_truth", 1)
	for gi := range c.L.Gopaths {
		if c.L.Gopaths[gi].ModRemote != "" {
			st.class("module_cache_under_another_remote_root", 1)
		}
	}
	for mi := range c.L.Modules {
		if c.L.Modules[mi].Top && canWriteTop() {
			st.class("module_directly_under_the_file_system_root", 1)
		}
	}
	for i, call := range calls {
		t := ts[i]
		if t.Testmain || !t.Known || !t.Present {
			continue
		}
		st.class("frames_checked_against_ground_truth", 1)
		if t.Loc == stack.GoMod && call.Location == stack.GoMod {
			// loose files: the module is the directory of the file
		}
		if t.ImportFromFunc {
			t.Import = call.Func.ImportPath
		}
		if call.LocalSrcPath != t.Local || call.RelSrcPath != t.Rel || call.Location != t.Loc || call.ImportPath != t.Import {
			return fmt.Errorf("frame %s exists locally as %s\n got  local=%q rel=%q import=%q location=%s\n want local=%q rel=%q import=%q location=%s\n roots: GOROOT=%q GOPATHs=%v gomods=%v",
				t.Remote, t.Local, call.LocalSrcPath, call.RelSrcPath, call.ImportPath, call.Location, t.Local, t.Rel, t.Import, t.Loc, snap.RemoteGOROOT, snap.RemoteGOPATHs, snap.LocalGomods)
		}
	}
	return nil
}

// c18Merged: what path guessing found out about a frame survives aggregation. Every goroutine
// gets a twin differing in one argument value, so that every bucket is the product of a merge;
// a bucket's frames must carry the resolution of its members' frames (they name the same file).
func c18Merged(snap *stack.Snapshot) error {
	twin := cloneSnapshot(snap)
	byID := map[int]*stack.Goroutine{}
	for _, g := range snap.Goroutines {
		byID[g.ID] = g
		t := cloneGoroutine(g)
		t.ID += 100000
		t.First = false
		for ci := range t.Stack.Calls {
			if a := &t.Stack.Calls[ci].Args; len(a.Values) > 0 && !a.Values[0].IsAggregate {
				a.Values[0].Value++
			}
		}
		twin.Goroutines = append(twin.Goroutines, t)
	}
	for _, b := range twin.Aggregate(stack.AnyValue).Buckets {
		m := byID[b.IDs[0]]
		if m == nil || len(b.Stack.Calls) != len(m.Stack.Calls) {
			continue
		}
		for i := range b.Stack.Calls {
			x, y := &b.Stack.Calls[i], &m.Stack.Calls[i]
			if x.RemoteSrcPath != y.RemoteSrcPath {
				break
			}
			if x.LocalSrcPath != y.LocalSrcPath || x.RelSrcPath != y.RelSrcPath || x.ImportPath != y.ImportPath || x.Location != y.Location {
				return fmt.Errorf("bucket %v, frame %d (%s): the merged bucket shows local=%q rel=%q import=%q location=%s, its members local=%q rel=%q import=%q location=%s",
					b.IDs, i, x.RemoteSrcPath, x.LocalSrcPath, x.RelSrcPath, x.ImportPath, x.Location, y.LocalSrcPath, y.RelSrcPath, y.ImportPath, y.Location)
			}
		}
	}
	return nil
}

// c18Creators: a creation frame is a frame: it names a file, and the file resolves the same way
// wherever the snapshot mentions it (the dumps give a third of the goroutines a creator in the
// file of their first frame).
func c18Creators(snap *stack.Snapshot) error {
	byFile := map[string]*stack.Call{}
	for _, g := range snap.Goroutines {
		for i := range g.Stack.Calls {
			byFile[g.Stack.Calls[i].RemoteSrcPath] = &g.Stack.Calls[i]
		}
	}
	for _, g := range snap.Goroutines {
		for i := range g.CreatedBy.Calls {
			x := &g.CreatedBy.Calls[i]
			y := byFile[x.RemoteSrcPath]
			if y == nil {
				continue
			}
			if x.LocalSrcPath != y.LocalSrcPath || x.RelSrcPath != y.RelSrcPath || x.Location != y.Location {
				return fmt.Errorf("goroutine %d: creation frame in %s: local=%q rel=%q location=%s, but a stack frame in the same file has local=%q rel=%q location=%s",
					g.ID, x.RemoteSrcPath, x.LocalSrcPath, x.RelSrcPath, x.Location, y.LocalSrcPath, y.RelSrcPath, y.Location)
			}
			statsFor("C18").class("creation_frames_compared_with_a_stack_frame_of_the_same_file", 1)
		}
	}
	return nil
}

var c18 = Check[c18Case]{
	Prop: "C18", Name: "layout",
	Gen: func(t *rapid.T) c18Case {
		l := genLayout(t, oneIn(t, 5, "nestedRoots"))
		nt := len(l.truths("")) + 1
		k := rapid.IntRange(1, min(nt, 12)).Draw(t, "nrefs")
		idx := make([]int, nt)
		for i := range idx {
			idx[i] = i
		}
		perm := rapid.Permutation(idx).Draw(t, "refs")
		c := c18Case{L: l, Order: perm[:k], Race: oneIn(t, 4, "raceReport"), Again: oneIn(t, 3, "again")}
		if len(l.Gopaths) != 0 && oneIn(t, 3, "viaEnv") {
			c.EnvSlash = rapid.SliceOfN(rapid.Bool(), len(l.Gopaths), len(l.Gopaths)).Draw(t, "envSlash")
		}
		return c
	},
	Oracle: c18Oracle,
	Obs: func(c c18Case) Obs {
		kinds := map[stack.Location]bool{}
		absent, outside := false, false
		truths := c.L.truths("")
		for _, k := range c.Order {
			if k < len(truths) {
				t := truths[k]
				if t.Known {
					kinds[t.Loc] = true
					if !t.Present {
						absent = true
					}
				} else {
					outside = true
				}
			}
		}
		var cl []string
		if len(kinds) >= 2 {
			cl = append(cl, "ge_2_root_kinds")
		}
		if absent {
			cl = append(cl, "absent_file")
		}
		if outside {
			cl = append(cl, "frame_outside_roots")
		}
		return Obs{Nontrivial: len(kinds) >= 2 && absent && outside, Digest: digestOf(c), Classes: cl, Sample: c}
	},
}

func init() { register(c18.key(), c18.Oracle) }

func TestC18(t *testing.T) {
	c := c18
	c.Checks = n(300, 3000)
	c.Run(t)
}
