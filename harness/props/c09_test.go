package props

import (
	"bytes"
	"fmt"
	"io"
	"reflect"
	"testing"

	"github.com/maruel/panicparse/v2/stack"
	"pgregory.net/rapid"
)

// C09 — reader delivery independence.

// Sched is a delivery schedule: chunk sizes in order (0 = a zero-length read returning
// (0, nil)); once exhausted the rest is delivered in one piece.
type Sched struct {
	Chunks      []int
	EOFWithData bool // io.EOF is returned together with the last data instead of on a separate call
}

type schedReader struct {
	data  []byte
	pos   int
	s     Sched
	idx   int
	left  int // bytes left in the current chunk
	reads int
}

func newSchedReader(data []byte, s Sched) *schedReader { return &schedReader{data: data, s: s} }

func (r *schedReader) Read(p []byte) (int, error) {
	r.reads++
	if r.pos >= len(r.data) {
		return 0, io.EOF
	}
	if r.left == 0 {
		if r.idx < len(r.s.Chunks) {
			r.left = r.s.Chunks[r.idx]
			r.idx++
			if r.left == 0 {
				return 0, nil
			}
		} else {
			r.left = len(r.data) - r.pos
		}
	}
	n := min(r.left, len(p), len(r.data)-r.pos)
	copy(p, r.data[r.pos:r.pos+n])
	r.pos += n
	r.left -= n
	if r.pos == len(r.data) && r.s.EOFWithData {
		return n, io.EOF
	}
	return n, nil
}

func (r *schedReader) unread() []byte { return r.data[r.pos:] }

// Delivery is a compact, replayable description of how a stream reaches the scanner; it lets
// every stream-level check (C02, C07, C08) also run under non-trivial reader behaviour.
type Delivery struct {
	Chunk       int  // 0: everything in one Read; otherwise fixed-size chunks
	EOFWithData bool // io.EOF returned together with the last data
}

func genDelivery(t *rapid.T) Delivery {
	var d Delivery
	switch rapid.IntRange(0, 5).Draw(t, "deliveryKind") {
	case 0, 1:
	case 2:
		d.EOFWithData = true
	case 3:
		d.Chunk = rapid.SampledFrom([]int{1, 7, 64, 4096}).Draw(t, "deliveryChunk")
	default:
		d.Chunk = rapid.SampledFrom([]int{1, 3, 64, 1000, 16384}).Draw(t, "deliveryChunk")
		d.EOFWithData = true
	}
	return d
}

func (d Delivery) reader(x []byte) io.Reader {
	if d.Chunk == 0 && !d.EOFWithData {
		return bytes.NewReader(x)
	}
	s := Sched{EOFWithData: d.EOFWithData}
	if d.Chunk > 0 {
		for i := 0; i*d.Chunk < len(x) && i < 20000; i++ {
			s.Chunks = append(s.Chunks, d.Chunk)
		}
	}
	return newSchedReader(x, s)
}

type outcome struct {
	snap   *stack.Snapshot
	prefix []byte
	err    error
	rem    []byte
}

func scanWith(x []byte, s *Sched, opts *stack.Opts) outcome {
	var w bytes.Buffer
	if s == nil {
		in := bytes.NewReader(x)
		snap, suffix, err := stack.ScanSnapshot(in, &w, opts)
		rest, _ := io.ReadAll(in)
		return outcome{snap, w.Bytes(), err, append(append([]byte{}, suffix...), rest...)}
	}
	in := newSchedReader(x, *s)
	snap, suffix, err := stack.ScanSnapshot(in, &w, opts)
	return outcome{snap, w.Bytes(), err, append(append([]byte{}, suffix...), in.unread()...)}
}

func sameOutcome(a, b outcome) error {
	if !bytes.Equal(a.prefix, b.prefix) {
		return fmt.Errorf("forwarded bytes differ: %s", firstDiffBytes(a.prefix, b.prefix))
	}
	if (a.err == nil) != (b.err == nil) || (a.err == io.EOF) != (b.err == io.EOF) || (a.err != nil && a.err.Error() != b.err.Error()) {
		return fmt.Errorf("error differs: single-shot %v, scheduled %v", a.err, b.err)
	}
	if !bytes.Equal(a.rem, b.rem) {
		return fmt.Errorf("remainder ++ unread differs: %s", firstDiffBytes(a.rem, b.rem))
	}
	if (a.snap == nil) != (b.snap == nil) {
		return fmt.Errorf("snapshot presence differs: single-shot %v, scheduled %v", a.snap != nil, b.snap != nil)
	}
	if a.snap != nil && !reflect.DeepEqual(a.snap, b.snap) {
		return fmt.Errorf("snapshots differ")
	}
	return nil
}

type c09Case struct {
	X []byte
	S Sched
}

func c09Oracle(c c09Case) error {
	opts, _ := variantOpts(c.X)
	ref := scanWith(c.X, nil, opts)
	got := scanWith(c.X, &c.S, opts)
	if err := sameOutcome(ref, got); err != nil {
		return err
	}
	// The same for a stream that ends in a reader failure: whether the failure comes with the
	// last data or on a call of its own, and in which pieces the data came, changes nothing.
	fail := func(withData bool, chunk int) outcome {
		var w bytes.Buffer
		r := &cutReader{data: c.X, c: len(c.X), err: errInjected, withData: withData, chunk: chunk}
		snap, suffix, err := stack.ScanSnapshot(r, &w, opts)
		return outcome{snap, w.Bytes(), err, append(append([]byte{}, suffix...), c.X[r.pos:]...)}
	}
	chunk := 0
	if len(c.S.Chunks) > 0 {
		chunk = c.S.Chunks[0]
	}
	if err := sameOutcome(fail(false, 0), fail(c.S.EOFWithData, chunk)); err != nil {
		return fmt.Errorf("stream ending in a reader failure (with the last data: %v, chunk %d): %v", c.S.EOFWithData, chunk, err)
	}
	// A reader that fails after k bytes has delivered the same bytes as one that ends there:
	// what was forwarded, found and handed back is the same, only the error may be the
	// reader's instead of the end of the stream (or of what the last, unfinished line caused).
	ks := []int{len(c.X)}
	sum := 0
	for i, n := range c.S.Chunks {
		sum += n
		if sum >= len(c.X) {
			break
		}
		if n > 0 && (i == 0 || i == len(c.S.Chunks)/2) {
			ks = append(ks, sum)
		}
	}
	for _, k := range ks {
		end := scanWith(c.X[:k], nil, opts)
		var w bytes.Buffer
		r := &cutReader{data: c.X, c: k, err: errInjected, withData: c.S.EOFWithData}
		snap, suffix, err := stack.ScanSnapshot(r, &w, opts)
		got := outcome{snap, w.Bytes(), err, append(append([]byte{}, suffix...), c.X[r.pos:k]...)}
		if got.err == errInjected && end.err != nil {
			got.err = end.err
		}
		if err := sameOutcome(end, got); err != nil {
			return fmt.Errorf("reader failing after %d of %d bytes, against the stream ending there: %v", k, len(c.X), err)
		}
	}
	return nil
}

// c09Stream: ground truth under a delivery schedule, over the whole resume history.
type c09StreamCase struct {
	S  StreamM
	Sc Sched
}

func c09StreamOracle(c c09StreamCase) error {
	x := c.S.Bytes()
	opts, loose := variantOpts(x)
	defer looseFor(loose)()
	h := resumeLoop(newSchedReader(x, c.Sc), opts, len(c.S.Items)+3)
	if err := streamTruth(&c.S, &h, true); err != nil {
		return err
	}
	// And single call differential.
	return sameOutcome(scanWith(x, nil, opts), scanWith(x, &c.Sc, opts))
}

func genSched(t *rapid.T, n int) Sched {
	var s Sched
	s.EOFWithData = rapid.Bool().Draw(t, "eofWithData")
	switch rapid.IntRange(0, 5).Draw(t, "schedKind") {
	case 0: // one byte at a time (the tail is delivered as one piece if the input is long)
		k := min(n, 3000)
		for i := 0; i < k; i++ {
			s.Chunks = append(s.Chunks, 1)
		}
	case 5: // a stuttering source: an empty read in front of every small piece, far more than
		// a hundred of them over the whole stream, never two in a row
		k := rapid.SampledFrom([]int{3, 7, 19}).Draw(t, "stutterChunk")
		for i := 0; i*k < n && i < 2000; i++ {
			s.Chunks = append(s.Chunks, 0, k)
		}
	case 1: // around the buffer size
		sz := rapid.SampledFrom([]int{16383, 16384, 16385, 8192, 4096, 16384 * 2}).Draw(t, "bufChunk")
		for i := 0; i*sz < n; i++ {
			s.Chunks = append(s.Chunks, sz)
		}
	default:
		left := n
		for left > 0 && len(s.Chunks) < 400 {
			var c int
			switch rapid.IntRange(0, 9).Draw(t, "chunkKind") {
			case 0:
				c = 0
			case 1, 2, 3:
				c = rapid.IntRange(1, 4).Draw(t, "chunk")
			case 4:
				c = rapid.SampledFrom([]int{16383, 16384, 16385}).Draw(t, "chunk")
			default:
				c = rapid.IntRange(1, 200).Draw(t, "chunk")
			}
			if c == 0 {
				z := rapid.IntRange(1, 99).Draw(t, "zeroRun")
				if oneIn(t, 4, "longZeroRun") {
					z = 99
				}
				for i := 0; i < z; i++ {
					s.Chunks = append(s.Chunks, 0)
				}
				s.Chunks = append(s.Chunks, 1)
				left--
				continue
			}
			s.Chunks = append(s.Chunks, c)
			left -= c
		}
	}
	return s
}

// splitsAt returns the schedule that cuts the input exactly at the given offsets.
func splitsAt(offsets ...int) Sched {
	var s Sched
	prev := 0
	for _, o := range offsets {
		if o > prev {
			s.Chunks = append(s.Chunks, o-prev)
			prev = o
		}
	}
	return s
}

func schedSplitsInside(x []byte, s Sched) (insideLine, zero, eolSplit bool) {
	pos := 0
	for _, c := range s.Chunks {
		if c == 0 {
			zero = true
			continue
		}
		pos += c
		if pos >= len(x) {
			break
		}
		if x[pos-1] != '\n' {
			insideLine = true
		}
		if x[pos-1] == '\r' && x[pos] == '\n' {
			eolSplit = true
		}
	}
	return
}

var c09Rand = Check[c09StreamCase]{
	Prop: "C09", Name: "stream",
	Gen: func(t *rapid.T) c09StreamCase {
		o := streamOptsDefault()
		o.MaxItems = 3
		s := genStream(t, o)
		return c09StreamCase{S: s, Sc: genSched(t, len(s.Bytes()))}
	},
	Oracle: c09StreamOracle,
	Obs: func(c c09StreamCase) Obs {
		x := c.S.Bytes()
		in, zero, eol := schedSplitsInside(x, c.Sc)
		long := false
		for _, l := range splitLines(x) {
			long = long || len(l) >= 16384
		}
		var cl []string
		for k, v := range map[string]bool{"split_inside_line": in, "zero_reads": zero, "split_in_crlf": eol, "line_ge_16k": long, "eof_with_data": c.Sc.EOFWithData} {
			if v {
				cl = append(cl, k)
			}
		}
		return Obs{Nontrivial: (in || zero || long) && len(c.S.Items) > 0, Digest: digestBytes(x, []byte(fmt.Sprint(c.Sc))), Classes: cl,
			Sample: map[string]any{"input": quoteShort(truncBytes(x, 500)), "chunks": truncInts(c.Sc.Chunks, 40), "eof_with_data": c.Sc.EOFWithData}}
	},
}

func truncInts(a []int, n int) []int {
	if len(a) > n {
		return a[:n]
	}
	return a
}

// c09Mut: free (mutated) inputs, differential only.
var c09Mut = Check[c09Case]{
	Prop: "C09", Name: "free",
	Gen: func(t *rapid.T) c09Case {
		x, _ := genFreeInput(t, 4)
		return c09Case{X: x, S: genSched(t, len(x))}
	},
	Oracle: c09Oracle,
	Obs: func(c c09Case) Obs {
		in, zero, _ := schedSplitsInside(c.X, c.S)
		return Obs{Nontrivial: in || zero, Digest: digestBytes(c.X, []byte(fmt.Sprint(c.S))), Classes: []string{"free"}}
	},
}

var c09Enum = Check[c09Case]{Prop: "C09", Name: "enum", Oracle: c09Oracle}

func init() {
	register(c09Rand.key(), c09Rand.Oracle)
	register(c09Mut.key(), c09Mut.Oracle)
	register(c09Enum.key(), c09Enum.Oracle)
}

var c09Tiny = []string{
	"goroutine 1 [r]:\n",   // 17 bytes: a header-only dump
	"a\r\n\r\ngoroutine 1", // CRLF junk and a header fragment
	"=========\n=======\n", // separator fragments
	"x\ngoroutine 9 [x]:",  // unterminated header
	"goroutine 2 [q]:\r\n", // CRLF header (18 bytes)
}

const c09Dump = "pre\ngoroutine 7 [chan receive, 2 minutes]:\nmain.f(0xc000012345, {0x1, 0x2})\n\t/a/b.go:12 +0x1f\ncreated by main.g in goroutine 1\n\t/a/c.go:3 +0x2\n\npost\n"

func TestC09(t *testing.T) {
	st := statsFor("C09")
	// All chunkings of tiny inputs.
	var cnt, nt int64
	idx := 0
	for _, in := range c09Tiny {
		x := []byte(in)
		nb := len(x)
		if nb > 18 {
			nb = 18
		}
		total := 1 << (nb - 1)
		c0 := cnt
		for mask := 0; mask < total; mask++ {
			idx++
			if !shardOwns(idx) {
				continue
			}
			var offs []int
			for b := 0; b < nb-1; b++ {
				if mask&(1<<b) != 0 {
					offs = append(offs, b+1)
				}
			}
			for e := 0; e < 2; e++ {
				s := splitsAt(offs...)
				s.EOFWithData = e == 1
				if !c09Enum.Each(t, c09Case{X: x, S: s}) {
					return
				}
				cnt++
				if mask != 0 {
					nt++
				}
			}
		}
		st.exhaustive(fmt.Sprintf("all %d chunkings of %q x EOF-with/after-data", total, in), cnt-c0)
	}
	// All schedules with <= 2 (quick) / <= 3 (thorough) split points of a small dump.
	x := []byte(c09Dump)
	nb := len(x)
	var rec func(start int, offs []int, depth int)
	rec = func(start int, offs []int, depth int) {
		if len(offs) > 0 {
			idx++
			if shardOwns(idx) {
				s := splitsAt(offs...)
				s.EOFWithData = idx%2 == 0
				if !c09Enum.Each(t, c09Case{X: x, S: s}) {
					return
				}
				cnt++
				nt++
			}
		}
		if depth == 0 {
			return
		}
		for o := start; o < nb; o++ {
			rec(o+1, append(append([]int{}, offs...), o), depth-1)
		}
	}
	before := cnt
	rec(1, nil, n(2, 3))
	st.exhaustive(fmt.Sprintf("all schedules with <=%d split points of a %d-byte dump", n(2, 3), nb), cnt-before)
	st.count(cnt, nt)
	st.class("enumerated_schedules", cnt)
	st.sample(map[string]any{"input": c09Tiny[0], "chunks": []int{3, 1, 1, 12}})

	a := c09Rand
	a.Checks = n(1200, 30000)
	a.Run(t)
	b := c09Mut
	b.Checks = n(1200, 30000)
	b.Run(t)
}
