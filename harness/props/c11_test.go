package props

import (
	"bytes"
	"fmt"
	"io"
	"os"
	"os/exec"
	"path/filepath"
	"sort"
	"syscall"
	"testing"
	"time"

	"github.com/maruel/panicparse/v2/stack"
	"pgregory.net/rapid"
)

// C11 — streaming progress: complete lines are never withheld.

type c11Case struct {
	S      StreamM
	Pieces []int // sizes of the pieces the producer delivers, then it blocks
	HTML   bool  `json:",omitempty"` // pp only: -html FILE (dump renderings go to the file, text still streams to stdout)
	// Via (pp only): how pp gets the stream. 0: standard input; 1: a named pipe given as the
	// FILE argument; 2: "/dev/stdin" given as the FILE argument.
	Via int `json:",omitempty"`
	// Flags (pp only): the rendering flags of the session; empty means -no-color.
	Flags []string `json:",omitempty"`
}

// layout is the ground truth geometry of a stream.
type layout struct {
	x        []byte
	junkUpTo []int // junkUpTo[o] = number of pass-through bytes in x[:o], for o at line boundaries (dense array)
	termEnd  []int // per dump: offset at which its first terminating line ends (-1: none)
	lineEnds []int // offsets just after each '\n'
}

func layoutOf(s *StreamM) *layout {
	l := &layout{x: s.Bytes()}
	isJunk := make([]bool, len(l.x))
	off := 0
	mark := func(n int, junk bool) {
		for i := 0; i < n; i++ {
			isJunk[off+i] = junk
		}
		off += n
	}
	mark(len(s.Pre), true)
	for i := range s.Items {
		it := &s.Items[i]
		db := it.dumpBytes()
		mark(len(db), false)
		end := off
		te := -1
		if it.Race != nil {
			if bytes.HasSuffix(db, []byte("\n")) {
				te = end
			}
		} else if len(it.After) > 0 {
			first := splitLines(it.After)[0]
			if bytes.HasSuffix(first, []byte("\n")) {
				te = end + len(first)
			}
		}
		l.termEnd = append(l.termEnd, te)
		mark(len(it.After), true)
	}
	l.junkUpTo = make([]int, len(l.x)+1)
	for i := range l.x {
		l.junkUpTo[i+1] = l.junkUpTo[i]
		if isJunk[i] {
			l.junkUpTo[i+1]++
		}
		if l.x[i] == '\n' {
			l.lineEnds = append(l.lineEnds, i+1)
		}
	}
	return l
}

// mustForward: how many pass-through bytes must have been written once x[:p] was delivered and
// the source blocks: every complete pass-through line delivered so far (the statement's first
// sentence, taken literally - a scanner may look at the next line to release the previous one,
// but when the source blocks nothing complete may be held back).
func (l *layout) mustForward(p int) int {
	k := sort.SearchInts(l.lineEnds, p+1) // number of complete lines in x[:p]
	if k < 1 {
		return 0
	}
	return l.junkUpTo[l.lineEnds[k-1]]
}

func (l *layout) mustHaveReturned(p int) int {
	n := 0
	for _, te := range l.termEnd {
		if te >= 0 && te <= p {
			n++
		}
	}
	return n
}

type hookReader struct {
	data   []byte
	pos    int
	pieces []int
	idx    int
	left   int
	onRead func(delivered int) error
	err    error
}

func (r *hookReader) Read(p []byte) (int, error) {
	if r.onRead != nil && r.err == nil {
		r.err = r.onRead(r.pos)
	}
	if r.pos >= len(r.data) {
		return 0, io.EOF
	}
	if r.left == 0 {
		if r.idx < len(r.pieces) {
			r.left = r.pieces[r.idx]
			r.idx++
		} else {
			r.left = len(r.data) - r.pos
		}
	}
	n := min(r.left, len(p), len(r.data)-r.pos)
	copy(p, r.data[r.pos:r.pos+n])
	r.pos += n
	r.left -= n
	return n, nil
}

func c11Oracle(c c11Case) error {
	l := layoutOf(&c.S)
	forwarded := 0
	returned := 0
	hr := &hookReader{data: l.x, pieces: c.Pieces}
	hr.onRead = func(p int) error {
		if need := l.mustForward(p); forwarded < need {
			return fmt.Errorf("the source blocks after %d bytes: %d pass-through bytes of complete lines were delivered but only %d were written", p, need, forwarded)
		}
		if need := l.mustHaveReturned(p); returned < need {
			return fmt.Errorf("the source blocks after %d bytes: the line ending dump %d was delivered completely, yet scanning asks for more input instead of returning the snapshot", p, returned)
		}
		return nil
	}
	var in io.Reader = hr
	w := writerFunc(func(b []byte) (int, error) { forwarded += len(b); return len(b), nil })
	opts, _ := variantOpts(l.x)
	for calls := 0; calls < len(c.S.Items)+4; calls++ {
		snap, suffix, err := stack.ScanSnapshot(in, w, opts)
		if hr.err != nil {
			return hr.err
		}
		if snap != nil {
			returned++
		}
		if err != nil {
			break
		}
		in = io.MultiReader(bytes.NewReader(append([]byte{}, suffix...)), in)
	}
	return hr.err
}

type writerFunc func([]byte) (int, error)

func (f writerFunc) Write(b []byte) (int, error) { return f(b) }

func genPieces(t *rapid.T, n int) []int {
	var ps []int
	left := n
	for left > 0 && len(ps) < 300 {
		var c int
		switch rapid.IntRange(0, 5).Draw(t, "pieceKind") {
		case 0:
			c = 1
		case 1:
			c = rapid.IntRange(1, 10).Draw(t, "piece")
		case 2:
			c = rapid.SampledFrom([]int{16383, 16384, 16385}).Draw(t, "piece")
		default:
			c = rapid.IntRange(1, 300).Draw(t, "piece")
		}
		ps = append(ps, c)
		left -= c
	}
	return ps
}

// alignPieces moves some piece boundaries onto the interesting offsets of the stream: the end
// of each dump (the closing separator of a race report is then the last byte of a delivery)
// and the end of the line that terminates it.
func alignPieces(t *rapid.T, s *StreamM, ps []int) []int {
	var marks []int
	off := len(s.Pre)
	marks = append(marks, off)
	for i := range s.Items {
		off += len(s.Items[i].dumpBytes())
		marks = append(marks, off)
		if ls := splitLines(s.Items[i].After); len(ls) > 0 {
			marks = append(marks, off+len(ls[0]))
		}
		off += len(s.Items[i].After)
	}
	cuts := map[int]bool{}
	pos := 0
	for _, p := range ps {
		pos += p
		cuts[pos] = true
	}
	for _, m := range marks {
		if rapid.Bool().Draw(t, "alignHere") {
			cuts[m] = true
		}
	}
	var sorted []int
	for c := range cuts {
		if c > 0 && c < off {
			sorted = append(sorted, c)
		}
	}
	sort.Ints(sorted)
	var out []int
	prev := 0
	for _, c := range sorted {
		out = append(out, c-prev)
		prev = c
	}
	return out
}

func piecesObs(x []byte, ps []int) (inside, afterNL bool) {
	pos := 0
	for _, p := range ps {
		pos += p
		if pos >= len(x) {
			break
		}
		if x[pos-1] == '\n' {
			afterNL = true
		} else {
			inside = true
		}
	}
	return
}

var c11Lib = Check[c11Case]{
	Prop: "C11", Name: "lib",
	Gen: func(t *rapid.T) c11Case {
		o := streamOptsDefault()
		o.MaxItems = 2
		s := genStream(t, o)
		return c11Case{S: s, Pieces: alignPieces(t, &s, genPieces(t, len(s.Bytes())))}
	},
	Oracle: c11Oracle,
	Obs: func(c c11Case) Obs {
		x := c.S.Bytes()
		in, nl := piecesObs(x, c.Pieces)
		cl := []string{}
		if len(c.S.Items) == 0 {
			cl = append(cl, "junk_only")
		}
		for _, it := range c.S.Items {
			if it.Race != nil {
				cl = append(cl, "race")
			} else {
				cl = append(cl, "dump")
			}
		}
		nt := len(c.Pieces) >= 3 && in && nl && bytes.Count(c.S.Junk(), []byte("\n")) >= 2
		return Obs{Nontrivial: nt, Digest: digestBytes(x, []byte(fmt.Sprint(c.Pieces))), Classes: cl,
			Sample: map[string]any{"input": quoteShort(truncBytes(x, 500)), "pieces": truncInts(c.Pieces, 30)}}
	},
}

// ---- end to end: pp through pipes -------------------------------------------------------

func readExactly(r io.Reader, nbytes int, d time.Duration) ([]byte, error) {
	if nbytes <= 0 {
		return nil, nil
	}
	type res struct {
		b   []byte
		err error
	}
	ch := make(chan res, 1)
	go func() {
		b := make([]byte, nbytes)
		_, err := io.ReadFull(r, b)
		ch <- res{b, err}
	}()
	select {
	case x := <-ch:
		return x.b, x.err
	case <-time.After(d):
		return nil, fmt.Errorf("timeout")
	}
}

func c11PPOnce(c c11Case, limit time.Duration) error {
	args := []string{"-no-color", "-rebase=false"}
	if len(c.Flags) > 0 {
		args = append(append([]string{}, c.Flags...), "-rebase=false")
	}
	if c.HTML {
		hf, err := os.CreateTemp(os.Getenv("VERIF_WORK"), "live*.html")
		if err != nil {
			return fmt.Errorf("HARNESS: %v", err)
		}
		hf.Close()
		defer os.Remove(hf.Name())
		args = append(args, "-html", hf.Name())
	}
	l := layoutOf(&c.S)
	// Expected output and the map from "events" to output offsets.
	var out bytes.Buffer
	out.Write(c.S.Pre)
	type ev struct{ inOff, outOff int }
	var dumpEv []ev // terminator delivered -> rendering complete
	junkOut := map[int]int{}
	// Output offset for every junk line end.
	inOff := 0
	recordJunk := func(j []byte, outStart int) {
		o := 0
		for _, ln := range splitLines(j) {
			o += len(ln)
			if bytes.HasSuffix(ln, []byte("\n")) {
				junkOut[inOff+o] = outStart + o
			}
		}
		inOff += len(j)
	}
	recordJunk(c.S.Pre, 0)
	for i := range c.S.Items {
		db := c.S.Items[i].dumpBytes()
		r, err := runPP(db, args...)
		if err != nil {
			return err
		}
		inOff += len(db)
		out.Write(r.Out)
		if l.termEnd[i] >= 0 {
			dumpEv = append(dumpEv, ev{l.termEnd[i], out.Len()})
		}
		start := out.Len()
		out.Write(c.S.Items[i].After)
		recordJunk(c.S.Items[i].After, start)
	}
	want := out.Bytes()
	required := func(p int) int {
		req := 0
		k := sort.SearchInts(l.lineEnds, p+1)
		for _, le := range l.lineEnds[:k] {
			if o, ok := junkOut[le]; ok && o > req {
				req = o
			}
		}
		for _, e := range dumpEv {
			if e.inOff <= p && e.outOff > req {
				// the rendering itself; the terminating junk line may still be pending
				req = e.outOff
			}
		}
		return req
	}
	runArgs := args
	var fifo string
	switch c.Via {
	case 1:
		d, done := scratchDir("c11fifo")
		defer done()
		fifo = filepath.Join(d, "stream")
		if err := syscall.Mkfifo(fifo, 0o600); err != nil {
			return fmt.Errorf("HARNESS: mkfifo: %v", err)
		}
		runArgs = append(append([]string{}, args...), fifo)
	case 2:
		runArgs = append(append([]string{}, args...), "/dev/stdin")
	}
	cmd := exec.Command(ppPath(), runArgs...)
	cmd.Env = append(os.Environ(), "GOTRACEBACK=all", "TERM=dumb")
	var stdin io.WriteCloser
	var err error
	if fifo == "" {
		if stdin, err = cmd.StdinPipe(); err != nil {
			return fmt.Errorf("HARNESS: %v", err)
		}
	}
	stdout, err := cmd.StdoutPipe()
	if err != nil {
		return fmt.Errorf("HARNESS: %v", err)
	}
	if err := cmd.Start(); err != nil {
		return fmt.Errorf("HARNESS: %v", err)
	}
	if fifo != "" {
		// Opening the write end returns once pp has opened the pipe for reading; closing it
		// later, as the only writer, is the end of the stream.
		type opened struct {
			f   *os.File
			err error
		}
		ch := make(chan opened, 1)
		go func() { f, err := os.OpenFile(fifo, os.O_WRONLY, 0); ch <- opened{f, err} }()
		select {
		case o := <-ch:
			if o.err != nil {
				_ = cmd.Process.Kill()
				_ = cmd.Wait()
				return fmt.Errorf("HARNESS: %v", o.err)
			}
			stdin = o.f
		case <-time.After(60 * time.Second):
			_ = cmd.Process.Kill()
			_ = cmd.Wait()
			if f, err := os.OpenFile(fifo, os.O_RDONLY|syscall.O_NONBLOCK, 0); err == nil {
				f.Close() // releases the opener goroutine
			}
			return fmt.Errorf("HARNESS: pp did not open the named pipe within 60s")
		}
	}
	defer func() {
		stdin.Close()
		_ = cmd.Process.Kill()
		_ = cmd.Wait()
	}()
	var got []byte
	pos := 0
	pieces := append(append([]int{}, c.Pieces...), len(l.x))
	for _, pc := range pieces {
		if pos >= len(l.x) {
			break
		}
		nb := min(pc, len(l.x)-pos)
		if _, err := stdin.Write(l.x[pos : pos+nb]); err != nil {
			return fmt.Errorf("pp closed its input early: %v", err)
		}
		pos += nb
		need := required(pos) - len(got)
		b, err := readExactly(stdout, need, limit)
		if err != nil {
			return fmt.Errorf("WITHHELD: after %d input bytes pp must have written %d bytes (complete pass-through lines and finished dumps), got %d within %v (%v)", pos, required(pos), len(got), limit, err)
		}
		got = append(got, b...)
		if !bytes.HasPrefix(want, got) {
			return fmt.Errorf("pp output diverges: %s", firstDiffBytes(want[:min(len(want), len(got))], got))
		}
	}
	stdin.Close()
	restCh := make(chan []byte, 1)
	go func() { b, _ := io.ReadAll(stdout); restCh <- b }()
	select {
	case b := <-restCh:
		got = append(got, b...)
	case <-time.After(limit):
		return fmt.Errorf("WITHHELD: pp did not finish within %v after its input was closed", limit)
	}
	if !bytes.Equal(got, want) {
		return fmt.Errorf("pp output: %s", firstDiffBytes(want, got))
	}
	return nil
}

// c11Confirmed: a withheld-output failure was already confirmed with the long limit in this
// process; the shrinker's further attempts then use a short limit (they only decide how small
// the reported case gets, never the verdict).
var c11Confirmed bool

func c11PPOracle(c c11Case) error {
	if c11Confirmed {
		return c11PPOnce(c, 2*time.Second)
	}
	err := c11PPOnce(c, 20*time.Second)
	if err != nil && bytes.HasPrefix([]byte(err.Error()), []byte("WITHHELD")) {
		// A time limit is never a verdict by itself: confirm with a much longer one.
		statsFor("C11").note("a 20s read limit tripped; re-running the session with 120s")
		err = c11PPOnce(c, 120*time.Second)
		if err != nil && bytes.HasPrefix([]byte(err.Error()), []byte("WITHHELD")) {
			c11Confirmed = true
		}
	}
	return err
}

var c11PP = Check[c11Case]{
	Prop: "C11", Name: "pp",
	Gen: func(t *rapid.T) c11Case {
		o := streamOptsDefault()
		o.MaxItems = 2
		o.Junk.Long = false
		o.Dump.LongLines = false
		s := genStream(t, o)
		c := c11Case{S: s, Pieces: alignPieces(t, &s, genPieces(t, len(s.Bytes()))), HTML: oneIn(t, 4, "html")}
		if oneIn(t, 3, "otherFlags") {
			c.Flags = rapid.SampledFrom([][]string{{"-force-color"}, {"-no-color", "-full-path"}, {"-no-color", "-aggressive"}, {"-force-color", "-full-path"}, {"-no-color", "-parse=false"}}).Draw(t, "flags")
		}
		if oneIn(t, 3, "viaFileArgument") {
			c.Via = rapid.IntRange(1, 2).Draw(t, "via")
		}
		return c
	},
	Oracle: c11PPOracle,
	Obs: func(c c11Case) Obs {
		o := c11Lib.Obs(c)
		o.Classes = append(o.Classes, "pp_session", []string{"pp_reads_stdin", "pp_reads_named_pipe_argument", "pp_reads_dev_stdin_argument"}[c.Via])
		o.Digest ^= 0x9e3779b97f4a7c15
		return o
	},
}

func init() {
	register(c11Lib.key(), c11Lib.Oracle)
	register(c11PP.key(), c11PP.Oracle)
}

func TestC11(t *testing.T) {
	a := c11Lib
	a.Checks = n(2500, 20000)
	a.Run(t)
	b := c11PP
	b.Checks = n(25, 1000)
	b.Run(t)
}
