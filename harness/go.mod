module verif/harness

go 1.23.0

require (
	github.com/maruel/panicparse/v2 v2.0.0-00010101000000-000000000000
	golang.org/x/net v0.34.0
	pgregory.net/rapid v1.3.0
)

replace github.com/maruel/panicparse/v2 => /repo
